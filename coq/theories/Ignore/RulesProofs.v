(* Properties of rule files: the negations-after flags, last-match-wins,
   soundness of "dominating" (pruning), the default rules. *)
From Slug Require Import Base.Str Ignore.Rules Ignore.Glob Ignore.GlobProofs.

(* ====================================================================== *)
(* the negations-after flags                                              *)
(* ====================================================================== *)

(* on the most-recent-first list used while reading *)
Definition na_exact (rs : list rule) : Prop :=
  forall pre r post, rs = pre ++ r :: post ->
    (r_negafter r = true <-> exists x, In x pre /\ r_neg x = true).
Definition na_over (rs : list rule) : Prop :=
  forall pre r post, rs = pre ++ r :: post ->
    (exists x, In x pre /\ r_neg x = true) -> r_negafter r = true.
(* marked rules form a suffix (the older ones) *)
Fixpoint marked_suffix (rs : list rule) : Prop :=
  match rs with
  | [] => True
  | r :: rest => (r_negafter r = true -> Forall (fun x => r_negafter x = true) rest) /\ marked_suffix rest
  end.

Lemma mark_back_all rs : marked_suffix rs -> Forall (fun x => r_negafter x = true) (mark_back rs).
Proof.
  induction rs as [|r rest IH]; intros H; [constructor|]. cbn in *. destruct H as [Hm Hs].
  destruct (r_negafter r) eqn:E.
  - constructor; [exact E|]. now apply Hm.
  - constructor; [reflexivity|]. now apply IH.
Qed.

Lemma mark_back_same rs : map r_val (mark_back rs) = map r_val rs /\ map r_neg (mark_back rs) = map r_neg rs.
Proof.
  induction rs as [|r rest [IH1 IH2]]; [auto|]. cbn. destruct (r_negafter r); [auto|].
  cbn. now rewrite IH1, IH2.
Qed.

Lemma marked_suffix_all rs : Forall (fun x => r_negafter x = true) rs -> marked_suffix rs.
Proof.
  induction rs as [|r rest IH]; intros H; [exact I|]. inversion H; subst. cbn. split; auto.
Qed.

Lemma in_split_mid {A} (pre : list A) r post pre' r' post' :
  pre ++ r :: post = pre' ++ r' :: post' -> True.
Proof. auto. Qed.

(* adding a rule in front *)
Lemma na_cons_plain new rs :
  r_neg new = false -> r_negafter new = false ->
  (na_exact rs -> na_exact (new :: rs)) /\ (na_over rs -> na_over (new :: rs)) /\
  (marked_suffix rs -> marked_suffix (new :: rs)).
Proof.
  intros Hn Hf. split; [|split].
  - intros H pre r post E. destruct pre as [|p pre]; cbn in E.
    + injection E as <- <-. rewrite Hf. split; [discriminate|]. intros (x & [] & _).
    + injection E as <- E. rewrite (H _ _ _ E). split.
      * intros (x & Hx & Hxn). exists x. split; [now right|exact Hxn].
      * intros (x & [<-|Hx] & Hxn); [congruence|eauto].
  - intros H pre r post E. destruct pre as [|p pre]; cbn in E.
    + injection E as <- <-. intros (x & [] & _).
    + injection E as <- E. intros (x & [<-|Hx] & Hxn); [congruence|]. eapply H; eauto.
  - intros H. cbn. split; [congruence|exact H].
Qed.

Lemma na_cons_neg new rs :
  r_neg new = true -> r_negafter new = false -> marked_suffix rs ->
  let rs' := mark_back rs in
  (na_exact (new :: rs')) /\ (na_over (new :: rs')) /\ marked_suffix (new :: rs').
Proof.
  intros Hn Hf Hm rs'. pose proof (mark_back_all rs Hm) as Hall. fold rs' in Hall.
  assert (Hex : na_exact (new :: rs')).
  { intros pre r post E. destruct pre as [|p pre]; cbn in E.
    - injection E as <- <-. rewrite Hf. split; [discriminate|]. intros (x & [] & _).
    - injection E as <- E. assert (Hr : r_negafter r = true).
      { rewrite Forall_forall in Hall. apply Hall. rewrite E. apply in_or_app. right. now left. }
      rewrite Hr. split; [|auto]. intros _. exists new. split; [now left|exact Hn]. }
  split; [exact Hex|]. split.
  - intros pre r post E H. destruct (Hex pre r post E) as [_ Hb]. now apply Hb.
  - cbn. split; [congruence|]. now apply marked_suffix_all.
Qed.

Record read_inv (exact : bool) (rs : list rule) : Prop := {
  ri_over : na_over rs;
  ri_exact : exact = true -> na_exact rs;
  ri_marked : marked_suffix rs }.

Lemma read_line_inv ex rs line rs' :
  read_inv ex rs -> read_line rs line = POk rs' -> read_inv ex rs'.
Proof.
  intros [Ho He Hm] H. unfold read_line in H.
  destruct line as [|l0 line0]; [injection H as <-; constructor; auto|].
  destruct (trim_space (l0 :: line0)) as [|c0 rest0] eqn:Et; [injection H as <-; constructor; auto|].
  destruct (Ascii.eqb c0 hash); [injection H as <-; constructor; auto|].
  destruct (Ascii.eqb c0 bang && is_empty rest0); [injection H as <-; constructor; auto|].
  destruct (Ascii.eqb c0 bang) eqn:Eb.
  - destruct (last_char rest0) as [lc|]; [|discriminate].
    injection H as <-.
    match goal with |- read_inv _ (?n :: _) => set (new := n) end.
    destruct (na_cons_neg new rs eq_refl eq_refl Hm) as (A & B & C).
    constructor; auto.
  - destruct (last_char (c0 :: rest0)) as [lc|]; [|discriminate].
    injection H as <-.
    match goal with |- read_inv _ (?n :: _) => set (new := n) end.
    destruct (na_cons_plain new rs eq_refl eq_refl) as (A & B & C).
    constructor; auto.
Qed.

Lemma read_lines_inv ex lines : forall rs rs',
  read_inv ex rs -> read_lines rs lines = POk rs' -> read_inv ex rs'.
Proof.
  induction lines as [|l lines IH]; intros rs rs' Hi H; cbn in H.
  - injection H as <-. exact Hi.
  - destruct (read_line rs l) as [rs1|] eqn:E; [|discriminate].
    eapply IH; [eapply read_line_inv; eauto|exact H].
Qed.

Definition flags_reachable (flags : list bool) : Prop :=
  flags = pristine_flags \/ flags = [true; true; true].

Lemma split3 {A} (a b c : A) pre r post :
  [a; b; c] = pre ++ r :: post ->
  (pre = [] /\ r = a /\ post = [b; c]) \/ (pre = [a] /\ r = b /\ post = [c]) \/
  (pre = [a; b] /\ r = c /\ post = []).
Proof.
  destruct pre as [|x [|y [|z pre]]]; cbn; intros E; injection E; intros; subst; auto.
  destruct pre; discriminate.
Qed.

Lemma defaults_inv_pristine : read_inv true (rev (default_rules pristine_flags)).
Proof.
  constructor.
  - intros pre r post E. cbn in E.
    destruct (split3 _ _ _ _ _ _ E) as [(-> & -> & ->)|[(-> & -> & ->)|(-> & -> & ->)]]; cbn.
    + intros (x & [] & _).
    + intros (x & [<-|[]] & H). discriminate.
    + reflexivity.
  - intros _ pre r post E. cbn in E.
    destruct (split3 _ _ _ _ _ _ E) as [(-> & -> & ->)|[(-> & -> & ->)|(-> & -> & ->)]]; cbn.
    + split; [discriminate|]. intros (x & [] & _).
    + split; [discriminate|]. intros (x & [<-|[]] & H). discriminate.
    + split; [|reflexivity]. intros _. eexists. split; [right; left; reflexivity|reflexivity].
  - cbn. repeat split; try discriminate. auto.
Qed.

Lemma defaults_inv_polluted : read_inv false (rev (default_rules [true; true; true])).
Proof.
  constructor.
  - intros pre r post E. cbn in E.
    destruct (split3 _ _ _ _ _ _ E) as [(-> & -> & ->)|[(-> & -> & ->)|(-> & -> & ->)]]; reflexivity.
  - discriminate.
  - cbn. repeat split; auto.
Qed.

Lemma rev_decomp {A} (l : list A) pre r post :
  l = pre ++ r :: post -> rev l = rev post ++ r :: rev pre.
Proof. intros ->. rewrite rev_app_distr. cbn. now rewrite <- app_assoc. Qed.

(* In file order: starting from the pristine defaults, a rule carries the flag
   exactly when some later rule is a negation. *)
Theorem negations_after_spec data rules fl :
  read_rules pristine_flags data = (POk rules, fl) ->
  forall pre r post, rules = pre ++ r :: post ->
    (r_negafter r = true <-> exists x, In x post /\ r_neg x = true).
Proof.
  unfold read_rules. destruct (read_lines _ _) as [rs|] eqn:E; [|discriminate].
  intros [= <- _] pre r post Hd.
  pose proof (read_lines_inv true _ _ _ defaults_inv_pristine E) as [_ Hex _].
  apply rev_decomp in Hd. rewrite rev_involutive in Hd.
  rewrite (Hex eq_refl _ _ _ Hd). split; intros (x & Hx & Hn); exists x; split; auto; now apply in_rev in Hx + (apply -> in_rev; exact Hx).
Qed.

(* From any reachable state of the shared flags the flags over-approximate:
   a rule followed by a negation is always flagged. *)
Theorem negations_after_over flags data rules fl :
  flags_reachable flags ->
  read_rules flags data = (POk rules, fl) ->
  forall pre r post, rules = pre ++ r :: post ->
    (exists x, In x post /\ r_neg x = true) -> r_negafter r = true.
Proof.
  intros Hf. unfold read_rules. destruct (read_lines _ _) as [rs|] eqn:E; [|discriminate].
  intros [= <- _] pre r post Hd (x & Hx & Hn).
  assert (Hov : na_over rs).
  { destruct Hf as [-> | ->].
    - now destruct (read_lines_inv true _ _ _ defaults_inv_pristine E).
    - now destruct (read_lines_inv false _ _ _ defaults_inv_polluted E). }
  apply rev_decomp in Hd. rewrite rev_involutive in Hd.
  eapply Hov; [exact Hd|]. exists x. split; [now apply -> in_rev|exact Hn].
Qed.

(* the shared flags only ever move from the pristine state to all-true *)
Theorem flags_after_reachable flags lines :
  flags_reachable flags -> flags_reachable (flags_after flags lines).
Proof.
  intros Hf. unfold flags_after. destruct (first_effective lines) as [[|c r]|]; auto.
  destruct (Ascii.eqb c bang); [|exact Hf].
  right. destruct Hf as [-> | ->]; reflexivity.
Qed.

(* ====================================================================== *)
(* last match wins                                                         *)
(* ====================================================================== *)
Lemma excludes_snoc rules r p : excludes (rules ++ [r]) p = excl_step p (excludes rules p) r.
Proof. unfold excludes. now rewrite fold_left_app. Qed.

Fixpoint last_match (rules : list rule) (p : str) : option rule :=
  match rules with
  | [] => None
  | r :: rest => match last_match rest p with
                 | Some x => Some x
                 | None => if rule_match r p then Some r else None
                 end
  end.

Lemma last_match_snoc rules r p :
  last_match (rules ++ [r]) p = if rule_match r p then Some r else last_match rules p.
Proof.
  induction rules as [|x rules IH]; cbn.
  - destruct (rule_match r p); reflexivity.
  - rewrite IH. destruct (rule_match r p); [reflexivity|]. reflexivity.
Qed.

Theorem last_match_wins rules p :
  fst (excludes rules p) =
  match last_match rules p with Some r => negb (r_neg r) | None => false end.
Proof.
  induction rules as [|r rules IH] using rev_ind; [reflexivity|].
  rewrite excludes_snoc, last_match_snoc. unfold excl_step.
  destruct (rule_match r p); [reflexivity|exact IH].
Qed.

(* ====================================================================== *)
(* a dominating verdict covers the whole subtree                           *)
(* ====================================================================== *)
Definition extc (f : str -> bool) : Prop :=
  forall s t, f s = true -> f (s ++ t) = true.

Lemma nonl_app a b : nonl (a ++ b) <-> nonl a /\ nonl b.
Proof. unfold nonl. rewrite in_app_iff. tauto. Qed.

Lemma extc_tokens ts : extc (tmatch (ts ++ [TDSE])).
Proof.
  induction ts as [|t ts IH]; intros s u H.
  - cbn in *. apply dse_go_spec in H as (a & b & -> & Hb). destruct b; [|discriminate].
    apply dse_go_spec. exists (a ++ [] ++ u), []. rewrite !app_nil_r. auto.
  - destruct t; cbn [app tmatch] in *.
    + destruct s as [|x s]; [discriminate|]. cbn [app]. rewrite andl_spec in *. apply andb_true_iff in H as [Hx H]. rewrite Hx. now apply IH.
    + destruct s as [|x s]; [discriminate|]. cbn [app]. rewrite andl_spec in *. apply andb_true_iff in H as [Hx H]. rewrite Hx. now apply IH.
    + apply star_go_spec in H as (a & b & -> & Ha & Hb). apply star_go_spec.
      exists a, (b ++ u). rewrite app_assoc. repeat split; auto.
    + destruct s as [|x s]; [discriminate|]. cbn [app]. rewrite andl_spec in *. apply andb_true_iff in H as [Hx H]. rewrite Hx. now apply IH.
    + rewrite orl_spec in *. apply orb_true_iff in H as [H|H]; apply orb_true_iff.
      * left. now apply IH.
      * right. apply dss_go_spec in H as (a & b & -> & Hb). apply dss_go_spec.
        exists a, (b ++ u). rewrite <- app_assoc. split; auto.
    + apply dse_go_spec in H as (a & b & -> & Hb). apply dse_go_spec.
      exists a, (b ++ u). rewrite app_assoc. split; auto.
    + discriminate.
Qed.

(* rules whose value ends in "**" compile to tokens ending in ".*" (true of
   every rule readRules builds from a line of the documented language; an odd
   run of stars or an escaped star before the final one is outside it) *)
Definition rule_ok (r : rule) : Prop :=
  has_suffix (r_val r) dstar2 = true -> exists ts, tokenize (r_val r) = ts ++ [TDSE].

Definition flags_sound (rules : list rule) : Prop :=
  forall pre r post, rules = pre ++ r :: post ->
    (exists x, In x post /\ r_neg x = true) -> r_negafter r = true.

Lemma excludes_app pre post p :
  excludes (pre ++ post) p = fold_left (excl_step p) post (excludes pre p).
Proof. unfold excludes. apply fold_left_app. Qed.

Lemma fold_nonneg p post : forall acc,
  (forall x, In x post -> r_neg x = false) -> fst acc = true ->
  fst (fold_left (excl_step p) post acc) = true.
Proof.
  induction post as [|x post IH]; intros acc Hn Ha; [exact Ha|].
  cbn. apply IH; [intros y Hy; apply Hn; now right|].
  unfold excl_step. destruct (rule_match x p); [|exact Ha].
  cbn. rewrite (Hn x) by now left. reflexivity.
Qed.

Lemma dominating_decompose rules p :
  excludes rules p = (true, true) ->
  exists pre r post, rules = pre ++ r :: post /\ rule_match r p = true /\ r_neg r = false /\
    r_negafter r = false /\ has_suffix (r_val r) dstar2 = true.
Proof.
  induction rules as [|x rules IH] using rev_ind; [discriminate|].
  rewrite excludes_snoc. unfold excl_step. destruct (rule_match x p) eqn:Em.
  - intros [= H1 H2]. apply negb_true_iff in H1. rewrite H1 in H2. cbn in H2.
    apply andb_true_iff in H2 as [H2 H3]. apply negb_true_iff in H2.
    exists rules, x, []. auto.
  - intros H. destruct (IH H) as (pre & r & post & -> & A & B & C & D).
    exists pre, r, (post ++ [x]). rewrite <- app_assoc. auto.
Qed.

Theorem dominating_sound_all rules d :
  flags_sound rules -> (forall r, In r rules -> rule_ok r) ->
  excludes rules d = (true, true) ->
  forall t, fst (excludes rules (d ++ t)) = true.
Proof.
  intros Hfs Hok H t.
  destruct (dominating_decompose rules d H) as (pre & r & post & -> & Hm & Hn & Hna & Hsuf).
  assert (Hpost : forall x, In x post -> r_neg x = false).
  { intros x Hx. destruct (r_neg x) eqn:E; [|reflexivity].
    rewrite (Hfs pre r post eq_refl) in Hna; [discriminate|]. eauto. }
  change (pre ++ r :: post) with (pre ++ [r] ++ post). rewrite app_assoc, excludes_app.
  apply fold_nonneg; [exact Hpost|]. rewrite excludes_snoc. unfold excl_step.
  assert (Hm' : rule_match r (d ++ t) = true).
  { destruct (Hok r) as (ts & Hts); [apply in_or_app; right; now left|exact Hsuf|].
    unfold rule_match in *. rewrite Hts in *. now apply extc_tokens. }
  rewrite Hm'. cbn. now rewrite Hn.
Qed.

(* as stated when "." did not match a newline (kept for its users) *)
Theorem dominating_sound rules d :
  flags_sound rules -> (forall r, In r rules -> rule_ok r) ->
  excludes rules d = (true, true) ->
  forall t, nonl t -> fst (excludes rules (d ++ t)) = true.
Proof. intros Hfs Hok H t _. now apply dominating_sound_all. Qed.


(* a decidable form of rule_ok, evaluated on every rule of the documented
   language that the correspondence stream sees *)
Definition rule_okb (r : rule) : bool :=
  negb (has_suffix (r_val r) dstar2) ||
  match rev (tokenize (r_val r)) with TDSE :: _ => true | _ => false end.

Lemma rule_okb_ok r : rule_okb r = true -> rule_ok r.
Proof.
  unfold rule_okb, rule_ok. intros H Hs. rewrite Hs in H. cbn in H.
  destruct (rev (tokenize (r_val r))) as [|t ts] eqn:E; [discriminate|].
  destruct t; try discriminate. exists (rev ts).
  rewrite <- (rev_involutive (tokenize (r_val r))), E. reflexivity.
Qed.

(* ====================================================================== *)
(* C19: parsing a rule file never panics                                   *)
(* ====================================================================== *)
Lemma last_char_cons c r : last_char (c :: r) <> None.
Proof.
  unfold last_char. destruct (rev (c :: r)) eqn:E; [|discriminate].
  apply (f_equal (@length ascii)) in E. rewrite rev_length in E. discriminate.
Qed.

Lemma read_line_no_panic rs line : read_line rs line <> PPanic.
Proof.
  unfold read_line. destruct line as [|l0 l]; [discriminate|].
  destruct (trim_space (l0 :: l)) as [|c0 rest0]; [discriminate|].
  destruct (Ascii.eqb c0 hash); [discriminate|].
  destruct (Ascii.eqb c0 bang && is_empty rest0) eqn:E1; [discriminate|].
  destruct (Ascii.eqb c0 bang) eqn:Eb.
  - destruct rest0 as [|r0 rest]; [discriminate|].
    destruct (last_char (r0 :: rest)) eqn:El; [discriminate|]. now apply last_char_cons in El.
  - destruct (last_char (c0 :: rest0)) eqn:El; [discriminate|]. now apply last_char_cons in El.
Qed.

Lemma read_lines_no_panic : forall lines rs, read_lines rs lines <> PPanic.
Proof.
  induction lines as [|l lines IH]; intros rs; cbn; [discriminate|].
  destruct (read_line rs l) eqn:E; [apply IH|]. now apply read_line_no_panic in E.
Qed.

Theorem read_rules_no_panic flags data : fst (read_rules flags data) <> PPanic.
Proof.
  unfold read_rules. destruct (read_lines _ _) eqn:E; cbn; [discriminate|].
  now apply read_lines_no_panic in E.
Qed.
