package main

// Stream "resolve": relative resolution of source addresses (property C11)
// plus the path-algebra fragment of the Go standard library the model restates
// (path.Clean, path.Join, fs.ValidPath).

import (
	"fmt"
	"io/fs"
	"path"
	"strings"

	"github.com/apparentlymart/go-versions/versions"
	"github.com/hashicorp/go-slug/sourceaddrs"
)

func init() { streams["resolve"] = runResolve }

// ---- observation of address values through the public API ----

type obsSrc struct {
	Kind string `json:"kind"` // local | registry | remote | registryfinal
	Pkg  string `json:"pkg,omitempty"`
	Ver  string `json:"ver,omitempty"`
	Sub  string `json:"sub"`
	Str  string `json:"str"`
}

func observe(v interface{}) obsSrc {
	switch a := v.(type) {
	case sourceaddrs.LocalSource:
		return obsSrc{Kind: "local", Sub: a.RelativePath(), Str: a.String()}
	case sourceaddrs.RegistrySource:
		return obsSrc{Kind: "registry", Pkg: a.Package().String(), Sub: a.SubPath(), Str: a.String()}
	case sourceaddrs.RemoteSource:
		return obsSrc{Kind: "remote", Pkg: a.Package().String(), Sub: a.SubPath(), Str: a.String()}
	case sourceaddrs.RegistrySourceFinal:
		return obsSrc{Kind: "registryfinal", Pkg: a.Package().String(), Ver: a.SelectedVersion().String(), Sub: a.SubPath(), Str: a.String()}
	}
	return obsSrc{Kind: fmt.Sprintf("?%T", v)}
}

func (o obsSrc) coq() string {
	switch o.Kind {
	case "local":
		return "(Local " + coqStr(o.Sub) + ")"
	case "registry":
		return "(Registry " + coqStr(o.Pkg) + " " + coqStr(o.Sub) + ")"
	case "remote":
		return "(Remote " + coqStr(o.Pkg) + " " + coqStr(o.Sub) + ")"
	case "registryfinal":
		return "(RegistryFinal " + coqStr(o.Pkg) + " " + coqStr(o.Ver) + " " + coqStr(o.Sub) + ")"
	}
	panic("bad kind " + o.Kind)
}

// ---- independent reference: segment stack ----

// semantic form of a relative path: ups + names
func relNF(p string) (int, []string) {
	ups := 0
	var names []string
	for _, g := range strings.Split(p, "/") {
		switch g {
		case "", ".":
		case "..":
			if len(names) > 0 {
				names = names[:len(names)-1]
			} else {
				ups++
			}
		default:
			names = append(names, g)
		}
	}
	return ups, names
}

// refApply applies rel to a package-rooted sub-path; ok=false if it climbs out.
func refApply(sub, rel string) (string, bool) {
	var stack []string
	if sub != "" {
		stack = strings.Split(sub, "/")
	}
	for _, g := range strings.Split(rel, "/") {
		switch g {
		case "", ".":
		case "..":
			if len(stack) == 0 {
				return "", false
			}
			stack = stack[:len(stack)-1]
		default:
			stack = append(stack, g)
		}
	}
	return strings.Join(stack, "/"), true
}

func subOK(s string) bool {
	if s == "" {
		return true
	}
	for _, g := range strings.Split(s, "/") {
		if g == "" || g == "." || g == ".." {
			return false
		}
	}
	return true
}

type resolver func(a, b interface{}) (interface{}, error)

func resolveAny(a, b interface{}) (interface{}, error) {
	// prefer the Source API when both are Sources, else the FinalSource API
	if as, ok := a.(sourceaddrs.Source); ok {
		if bs, ok := b.(sourceaddrs.Source); ok {
			return sourceaddrs.ResolveRelativeSource(as, bs)
		}
	}
	return sourceaddrs.ResolveRelativeFinalSource(a.(sourceaddrs.FinalSource), b.(sourceaddrs.FinalSource))
}
func resolveFinal(a, b interface{}) (interface{}, error) {
	af, ok1 := a.(sourceaddrs.FinalSource)
	bf, ok2 := b.(sourceaddrs.FinalSource)
	if !ok1 || !ok2 {
		return resolveAny(a, b)
	}
	return sourceaddrs.ResolveRelativeFinalSource(af, bf)
}

func safeResolve(f resolver, a, b interface{}) (r interface{}, err error, panicked interface{}) {
	defer func() {
		if p := recover(); p != nil {
			panicked = p
		}
	}()
	r, err = f(a, b)
	return
}

// oracleResolve checks one resolution against the reference.
func oracleResolve(a, b obsSrc, r obsSrc, rerr error, panicked interface{}) []Violation {
	var vs []Violation
	bad := func(what string) {
		vs = append(vs, Violation{Property: "C11", What: what})
	}
	if panicked != nil {
		bad(fmt.Sprintf("resolve panicked: %v", panicked))
		vs = append(vs, Violation{Property: "C19", What: fmt.Sprintf("resolve panicked: %v", panicked)})
		return vs
	}
	if b.Kind != "local" {
		if rerr != nil || r != b {
			bad("absolute second argument not returned unchanged")
		}
		return vs
	}
	if a.Kind == "local" {
		if rerr != nil {
			bad("local base: resolution failed")
			return vs
		}
		if r.Kind != "local" {
			bad("kind changed")
			return vs
		}
		u1, n1 := relNF(a.Sub + "/" + b.Sub)
		u2, n2 := relNF(r.Sub)
		if u1 != u2 || strings.Join(n1, "/") != strings.Join(n2, "/") {
			bad(fmt.Sprintf("local result %q does not denote base/rel", r.Sub))
		} else {
			// the path is the segment-wise result itself, spelled the one canonical way
			var segs []string
			for i := 0; i < u2; i++ {
				segs = append(segs, "..")
			}
			segs = append(segs, n2...)
			if len(segs) == 0 {
				segs = []string{"."}
			}
			if want := canonLocal(segs); r.Sub != want {
				bad(fmt.Sprintf("local result is %q where base/rel, applied segment by segment, is %q", r.Sub, want))
			}
		}
		return vs
	}
	want, ok := refApply(a.Sub, b.Sub)
	if !ok {
		if rerr == nil {
			bad(fmt.Sprintf("escaping resolution yielded address %q", r.Str))
		}
		return vs
	}
	if rerr != nil {
		bad("non-escaping resolution failed: " + rerr.Error())
		return vs
	}
	if r.Kind != a.Kind || r.Pkg != a.Pkg || r.Ver != a.Ver {
		bad("kind, package or version changed")
	}
	if r.Sub != want {
		bad(fmt.Sprintf("sub-path %q, reference says %q", r.Sub, want))
	}
	if !subOK(r.Sub) {
		bad(fmt.Sprintf("result sub-path %q has empty, . or .. segment", r.Sub))
	}
	return vs
}

type resolveDesc struct {
	Op     string  `json:"op"`
	A      obsSrc  `json:"a"`
	B      obsSrc  `json:"b"`
	C      *obsSrc `json:"c,omitempty"`
	Result *obsSrc `json:"result,omitempty"`
	Err    string  `json:"err,omitempty"`
	Final  bool    `json:"final_api,omitempty"`
}

func canonLocal(segs []string) string {
	p := path.Clean(strings.Join(segs, "/"))
	if p == "." {
		return "./"
	}
	if p == ".." {
		return "../"
	}
	if !strings.HasPrefix(p, "./") && !strings.HasPrefix(p, "../") {
		p = "./" + p
	}
	return p
}

func enumSegLists(alpha []string, maxLen int, f func([]string)) {
	var rec func(cur []string)
	rec = func(cur []string) {
		if len(cur) > 0 {
			f(cur)
		}
		if len(cur) == maxLen {
			return
		}
		for _, a := range alpha {
			rec(append(append([]string{}, cur...), a))
		}
	}
	rec(nil)
}

func mustLocal(s string) sourceaddrs.LocalSource {
	l, err := sourceaddrs.ParseLocalSource(s)
	if err != nil {
		panic(fmt.Sprintf("harness: %q should parse as local: %v", s, err))
	}
	return l
}

func runResolve(o *Opts) {
	rng := NewRng(o.Seed)
	sink := NewSink(o.Out, "resolve", "Corr.RunResolve",
		"cases: (base, rel) pairs and (base, rel1, rel2) triples over bases of every kind (sub-path depth 0..4) and canonical relative paths from segment lists over {name, ., ..} up to length 5 (enumerated), random longer ones, FinalSourceAddr joins, ParseLocalSource and path.Clean/Join/ValidPath probes; non-trivial = relative second argument or non-identity path operation; distinct by canonical JSON of inputs",
		400)

	// ---- bases ----
	var bases []interface{}
	names := []string{"m", "nn", "o", "pp"}
	for d := 0; d <= 4; d++ {
		sub := strings.Join(names[:d], "/")
		suffix := ""
		if sub != "" {
			suffix = "//" + sub
		}
		rs, err := sourceaddrs.ParseRemoteSource("git::https://example.com/repo.git" + suffix)
		if err != nil {
			panic(err)
		}
		bases = append(bases, rs)
		gs, err := sourceaddrs.ParseRegistrySource("example.com/ns/name/sys" + suffix)
		if err != nil {
			panic(err)
		}
		bases = append(bases, gs)
		bases = append(bases, gs.Versioned(versions.MustParseVersion("1.2.3")))
	}
	for ups := 0; ups <= 2; ups++ {
		for d := 0; d <= 3; d++ {
			segs := []string{"."}
			for i := 0; i < ups; i++ {
				segs = append(segs, "..")
			}
			segs = append(segs, names[:d]...)
			bases = append(bases, mustLocal(canonLocal(segs)))
		}
	}

	// ---- relative paths ----
	relSet := map[string]int{} // canonical -> min raw length
	enumSegLists([]string{"x", ".", ".."}, 5, func(s []string) {
		c := canonLocal(append([]string{"."}, s...))
		if l, ok := relSet[c]; !ok || len(s) < l {
			relSet[c] = len(s)
		}
		// also the "../"-led spelling
		c2 := canonLocal(s)
		if l, ok := relSet[c2]; !ok || len(s) < l {
			relSet[c2] = len(s)
		}
	})
	var rels, shortRels []string
	for _, k := range sortedKeys(relSet) {
		rels = append(rels, k)
		if relSet[k] <= 3 {
			shortRels = append(shortRels, k)
		}
	}

	emitResolve := func(f resolver, final bool, a, b interface{}) (interface{}, bool) {
		r, err, pn := safeResolve(f, a, b)
		oa, ob := observe(a), observe(b)
		d := resolveDesc{Op: "resolve", A: oa, B: ob, Final: final}
		var or obsSrc
		ok := err == nil && pn == nil
		if ok {
			or = observe(r)
			d.Result = &or
		} else if err != nil {
			d.Err = err.Error()
		} else {
			d.Err = fmt.Sprintf("panic: %v", pn)
		}
		c := Case{Desc: d, Kind: "resolve/" + oa.Kind, Nontrivial: ob.Kind == "local",
			Key: fmt.Sprintf("R|%v|%s|%s", final, oa.Str+"@"+oa.Ver, ob.Str)}
		c.Viol = oracleResolve(oa, ob, or, err, pn)
		if pn == nil && isASCII(oa.Str+ob.Str) {
			rc := "None"
			if ok {
				rc = "(Some " + or.coq() + ")"
			}
			c.Coq = fmt.Sprintf("CResolve %s %s %s", oa.coq(), ob.coq(), rc)
		}
		sink.Add(c)
		return r, ok
	}

	doTriple := func(a interface{}, b, c sourceaddrs.LocalSource) {
		f := resolveAny
		r1, ok1 := emitResolve(f, false, a, b)
		var lhs interface{}
		lok := false
		if ok1 {
			lhs, lok = emitResolve(f, false, r1, c)
		}
		bc, okbc := emitResolve(f, false, b, c)
		if !okbc {
			return
		}
		rhs, rok := emitResolve(f, false, a, bc)
		// composition oracle
		var v []Violation
		if lok != rok {
			v = append(v, Violation{Property: "C11", What: "resolve(resolve(a,b),c) and resolve(a, b+c) differ in success"})
		} else if lok && observe(lhs) != observe(rhs) {
			v = append(v, Violation{Property: "C11", What: fmt.Sprintf("resolve(resolve(a,b),c)=%q but resolve(a,b+c)=%q", observe(lhs).Str, observe(rhs).Str)})
		}
		oc := observe(c)
		sink.Add(Case{Desc: resolveDesc{Op: "compose", A: observe(a), B: observe(b), C: &oc}, Kind: "compose",
			Nontrivial: true, Key: fmt.Sprintf("T|%s|%s|%s", observe(a).Str+"@"+observe(a).Ver, b.String(), c.String()), Viol: v})
	}

	// pairs: exhaustive in both tiers
	for _, a := range bases {
		for _, r := range rels {
			b := mustLocal(r)
			emitResolve(resolveAny, false, a, b)
			if _, isFinal := a.(sourceaddrs.FinalSource); isFinal {
				emitResolve(resolveFinal, true, a, b)
			}
		}
		// absolute second arguments
		for _, b := range bases[:6] {
			_, aS := a.(sourceaddrs.Source)
			_, bS := b.(sourceaddrs.Source)
			_, aF := a.(sourceaddrs.FinalSource)
			_, bF := b.(sourceaddrs.FinalSource)
			if (aS && bS) || (aF && bF) {
				emitResolve(resolveAny, false, a, b)
			}
		}
	}
	// triples
	type tr struct {
		a    interface{}
		b, c string
	}
	var triples []tr
	for _, a := range bases {
		for _, b := range shortRels {
			for _, c := range shortRels {
				triples = append(triples, tr{a, b, c})
			}
		}
	}
	exhaustive := o.Tier == "thorough"
	if exhaustive {
		for _, t := range triples {
			doTriple(t.a, mustLocal(t.b), mustLocal(t.c))
		}
	} else {
		for i := 0; i < 1500; i++ {
			t := triples[rng.Intn(len(triples))]
			doTriple(t.a, mustLocal(t.b), mustLocal(t.c))
		}
	}
	// random longer ones
	nRandom := 600
	if exhaustive {
		nRandom = 20000
	}
	alpha := []string{"a", "bb", "c.d", "..", ".", "..", "e-f", "_g", ".h", "..i", ".terraform"}
	randRel := func() sourceaddrs.LocalSource {
		n := 1 + rng.Intn(9)
		segs := []string{"."}
		if rng.Chance(30) {
			segs = nil
		}
		for i := 0; i < n; i++ {
			segs = append(segs, rng.Pick(alpha))
		}
		return mustLocal(canonLocal(segs))
	}
	for i := 0; i < nRandom; i++ {
		var a interface{}
		if rng.Chance(30) {
			a = randRel()
		} else {
			n := rng.Intn(7)
			var segs []string
			for j := 0; j < n; j++ {
				segs = append(segs, rng.Pick([]string{"a", "bb", "c.d", "e-f", "_g", "...", ".h", "..i"}))
			}
			suffix := ""
			if n > 0 {
				suffix = "//" + strings.Join(segs, "/")
			}
			switch rng.Intn(3) {
			case 0:
				s, err := sourceaddrs.ParseRemoteSource("https://example.org/x.tgz" + suffix + "?a=b")
				if err != nil {
					panic(err)
				}
				a = s
			case 1:
				s, err := sourceaddrs.ParseRegistrySource("hashicorp/subnets/cidr" + suffix)
				if err != nil {
					panic(err)
				}
				a = s
			default:
				s, err := sourceaddrs.ParseFinalRegistrySource("hashicorp/subnets/cidr@2.0.0-beta.1" + suffix)
				if err != nil {
					panic(err)
				}
				a = s
			}
		}
		if rng.Chance(50) {
			doTriple(a, randRel(), randRel())
		} else {
			emitResolve(resolveFinal, true, a, randRel())
		}
	}

	// ---- FinalSourceAddr ----
	subs := []string{"", "m", "m/nn", "m/nn/o"}
	for _, s := range subs {
		for _, rsub := range subs {
			suffix := ""
			if s != "" {
				suffix = "//" + s
			}
			reg, _ := sourceaddrs.ParseRegistrySource("example.com/ns/name/sys" + suffix)
			rsuffix := ""
			if rsub != "" {
				rsuffix = "//" + rsub
			}
			real, _ := sourceaddrs.ParseRemoteSource("git::https://example.com/real.git" + rsuffix)
			got := reg.FinalSourceAddr(real)
			og := observe(got)
			var v []Violation
			want := strings.Trim(rsub+"/"+s, "/")
			if og.Sub != want || og.Pkg != observe(real).Pkg {
				v = append(v, Violation{Property: "C11", What: fmt.Sprintf("FinalSourceAddr sub-path %q, reference %q", og.Sub, want)})
			}
			got2 := reg.Versioned(versions.MustParseVersion("1.0.0")).FinalSourceAddr(real)
			if observe(got2) != og {
				v = append(v, Violation{Property: "C11", What: "versioned FinalSourceAddr differs"})
			}
			sink.Add(Case{
				Coq:  fmt.Sprintf("CFinalAddr %s %s %s %s", coqStr(s), coqStr(observe(real).Pkg), coqStr(rsub), og.coq()),
				Desc: map[string]interface{}{"op": "final_source_addr", "registry_sub": s, "real": observe(real), "result": og},
				Kind: "final_source_addr", Nontrivial: s != "" && rsub != "", Key: "F|" + s + "|" + rsub, Viol: v})
		}
	}

	// ---- path algebra probes (standard library restated in the model) ----
	palpha := []string{"a", "bb", ".", "..", "", "...", "a.b"}
	probe := func(p string) {
		sink.Add(Case{Coq: fmt.Sprintf("CClean %s %s", coqStr(p), coqStr(path.Clean(p))),
			Desc: map[string]interface{}{"op": "clean", "in": p, "out": path.Clean(p)}, Kind: "path.Clean",
			Nontrivial: path.Clean(p) != p, Key: "C|" + p})
		sink.Add(Case{Coq: fmt.Sprintf("CValidPath %s %s", coqStr(p), coqBool(fs.ValidPath(p))),
			Desc: map[string]interface{}{"op": "validpath", "in": p, "out": fs.ValidPath(p)}, Kind: "fs.ValidPath",
			Nontrivial: fs.ValidPath(p), Key: "V|" + p})
		sink.Add(Case{Coq: fmt.Sprintf("CValidSub %s %s", coqStr(p), coqBool(sourceaddrs.ValidSubPath(p))),
			Desc: map[string]interface{}{"op": "validsubpath", "in": p, "out": sourceaddrs.ValidSubPath(p)}, Kind: "ValidSubPath",
			Nontrivial: sourceaddrs.ValidSubPath(p), Key: "S|" + p})
		l, err := sourceaddrs.ParseLocalSource(p)
		sink.Add(Case{Coq: fmt.Sprintf("CParseLocal %s %s", coqStr(p), coqOpt(err == nil, coqStr(l.RelativePath()))),
			Desc: map[string]interface{}{"op": "parselocal", "in": p, "ok": err == nil}, Kind: "ParseLocalSource",
			Nontrivial: err == nil, Key: "L|" + p})
	}
	maxLen := 4
	if exhaustive {
		maxLen = 5
	}
	enumSegLists(palpha, maxLen, func(s []string) {
		p := strings.Join(s, "/")
		if exhaustive || len(s) <= 3 || rng.Chance(25) {
			probe(p)
			if rng.Chance(20) {
				probe("/" + p)
			}
		}
	})
	for i := 0; i < 300; i++ {
		a := strings.Join([]string{rng.Pick(palpha), rng.Pick(palpha), rng.Pick(palpha)}, "/")
		b := strings.Join([]string{rng.Pick(palpha), rng.Pick(palpha)}, "/")
		if rng.Chance(20) {
			a = ""
		}
		if rng.Chance(10) {
			b = ""
		}
		j := path.Join(a, b)
		sink.Add(Case{Coq: fmt.Sprintf("CJoin2 %s %s %s", coqStr(a), coqStr(b), coqStr(j)),
			Desc: map[string]interface{}{"op": "join", "a": a, "b": b, "out": j}, Kind: "path.Join", Nontrivial: true, Key: "J|" + a + "|" + b})
	}
	sink.Close(exhaustive)
}
