package main

// Stream "manifest": hand-written and hostile bundle manifests (C18 lookups stay
// inside the bundle and invert each other; C19 opening any manifest returns).
// Each case writes a manifest document into a fresh directory, opens it with
// the real OpenDir, reads every accessor, and asks forward and reverse
// lookups; the same document (field-wise) and the observations go to the
// Gallina model (Bundle/Lookup.v).

import (
	"encoding/json"
	"fmt"
	"os"
	"path/filepath"
	"sort"
	"strings"

	"github.com/apparentlymart/go-versions/versions"
	"github.com/hashicorp/go-slug/sourceaddrs"
	"github.com/hashicorp/go-slug/sourcebundle"
)

func init() { streams["manifest"] = runManifest }

type mfPackage struct {
	Source string `json:"source"`
	Local  string `json:"local"`
	Meta   mfMeta `json:"meta,omitempty"`
}
type mfMeta struct {
	Commit  string `json:"git_commit_id,omitempty"`
	Message string `json:"git_commit_message,omitempty"`
}
type mfDepr struct {
	Version string
	Reason  string
	Link    string
}
type mfVersion struct {
	Source string  `json:"source"`
	Depr   *mfDepr `json:"deprecation"`
}
type mfRegistry struct {
	Source   string               `json:"source"`
	Versions map[string]mfVersion `json:"versions,omitempty"`
	order    []string             // generation order of the version keys (for the model)
}
type mfDoc struct {
	Format   uint64       `json:"terraform_source_bundle"`
	Packages []mfPackage  `json:"packages,omitempty"`
	Registry []mfRegistry `json:"registry,omitempty"`
}

type mfQuery struct {
	Kind string `json:"kind"` // remote | final | reverse
	In   string `json:"in"`
	Ok   bool   `json:"ok"`
	Path string `json:"path,omitempty"`
	Pkg  string `json:"pkg,omitempty"`
	Sub  string `json:"sub,omitempty"`
	Err  string `json:"err,omitempty"`
}

type mfObs struct {
	Root    string      `json:"root"`
	Doc     *mfDoc      `json:"doc,omitempty"`
	Raw     string      `json:"raw,omitempty"` // mutated raw document (oracle only)
	Opened  bool        `json:"opened"`
	Err     string      `json:"err,omitempty"`
	Panic   string      `json:"panic,omitempty"`
	Pkgs    [][4]string `json:"pkgs,omitempty"`
	Reg     [][4]string `json:"reg,omitempty"`
	Queries []mfQuery   `json:"queries,omitempty"`
}

var goodDirs = []string{"a1", "a1x", "A1", "pkg", "Pkg", "pkg2", "pkg-0", "upper", "9f86d081884c7d65", "x_y", "UPPER", "with space", "a.b", "...", "a\\b",
	" ..", ".. ", "\t..\n", " . ", " a1", "a1 "} // padded names are names like any other: never trimmed
var badDirs = []string{"", ".", "..", "a/b", "/abs", "a/..", "x/", "../up", "a//b", "./a", "a/./b"}

func genPkgOnly(rng *Rng) string {
	for {
		s, sub := genValidRemote(rng)
		if sub == "" {
			return s
		}
	}
}

func genManifest(rng *Rng) *mfDoc {
	d := &mfDoc{Format: 1}
	if rng.Chance(6) {
		d.Format = uint64(rng.Pick([]string{"0", "2", "3"})[0] - '0')
	}
	np := rng.Intn(5)
	var dirs []string
	for i := 0; i < np; i++ {
		p := mfPackage{Source: genPkgOnly(rng)}
		switch {
		case rng.Chance(5):
			p.Local = rng.Pick(badDirs)
		case len(dirs) > 0 && rng.Chance(30):
			p.Local = rng.Pick(dirs) // aliases sharing one directory
		default:
			p.Local = rng.Pick(goodDirs)
		}
		dirs = append(dirs, p.Local)
		if rng.Chance(4) {
			p.Source = rng.Pick([]string{"", "not an address", "https://example.com/x.zip", "git::http://example.com/r.git", "git::https://example.com/r.git//sub", "hashicorp/subnets/cidr", "./local", "git::https://u:p@example.com/r.git"})
		}
		if rng.Chance(30) {
			p.Meta.Commit = rng.Pick([]string{"abc123", "deadbeef", ""})
			p.Meta.Message = rng.Pick([]string{"initial", "", "fix: thing"})
		}
		if len(d.Packages) > 0 && rng.Chance(10) { // the same package twice
			p.Source = d.Packages[rng.Intn(len(d.Packages))].Source
		}
		d.Packages = append(d.Packages, p)
	}
	nr := rng.Intn(3)
	for i := 0; i < nr; i++ {
		src, _ := genValidRegistry(rng)
		if j := strings.Index(src, "//"); j >= 0 {
			src = src[:j]
		}
		if rng.Chance(4) {
			src = rng.Pick([]string{"", "a/b", "hashicorp/subnets/cidr//sub", "github.com/a/b/c", "https://example.com/x.tgz"})
		}
		if len(d.Registry) > 0 && rng.Chance(15) {
			src = d.Registry[rng.Intn(len(d.Registry))].Source
		}
		r := mfRegistry{Source: src, Versions: map[string]mfVersion{}}
		nv := rng.Intn(4)
		seenV := map[string]bool{}
		for k := 0; k < nv; k++ {
			vs := fmt.Sprintf("%d.%d.%d", rng.Intn(3), rng.Intn(3), rng.Intn(3)) + rng.Pick([]string{"", "", "-beta", "+m"})
			if rng.Chance(4) {
				vs = rng.Pick([]string{"", "v1.0.0", "1.x", "1", "1.0.0-", "18446744073709551616.0.0", "1.2.3.4"})
			}
			// two spellings of one version make the result depend on map order: keep one
			pv, perr := safeVersion(vs)
			key := vs
			if perr == nil {
				key = pv.String()
			}
			if seenV[key] {
				continue
			}
			seenV[key] = true
			var srcAddr string
			if len(d.Packages) > 0 && rng.Chance(85) {
				srcAddr = d.Packages[rng.Intn(len(d.Packages))].Source
				if rng.Chance(40) && !strings.Contains(srcAddr, "?") {
					srcAddr += "//" + genSubOK(rng)
				} else if rng.Chance(30) {
					if q := strings.Index(srcAddr, "?"); q >= 0 {
						srcAddr = srcAddr[:q] + "//" + genSubOK(rng) + srcAddr[q:]
					}
				}
			} else {
				srcAddr, _ = genValidRemote(rng)
			}
			mv := mfVersion{Source: srcAddr}
			if rng.Chance(20) {
				mv.Depr = &mfDepr{Version: vs, Reason: rng.Pick([]string{"old", "use v2", ""}), Link: "https://example.com/d"}
			}
			r.Versions[vs] = mv
			r.order = append(r.order, vs)
		}
		d.Registry = append(d.Registry, r)
	}
	return d
}

func safeVersion(s string) (v versions.Version, err error) {
	defer func() {
		if p := recover(); p != nil {
			err = fmt.Errorf("panic: %v", p)
		}
	}()
	return versions.ParseVersion(s)
}

func coqManifest(d *mfDoc) string {
	var ps, rs []string
	for _, p := range d.Packages {
		ps = append(ps, fmt.Sprintf("mkMPackage %s %s %s %s", coqStr(p.Source), coqStr(p.Local), coqStr(p.Meta.Commit), coqStr(p.Meta.Message)))
	}
	for _, r := range d.Registry {
		var vs []string
		for _, k := range r.order {
			v := r.Versions[k]
			dep := "None"
			if v.Depr != nil {
				dep = fmt.Sprintf("(Some (mkDepr %s %s %s))", coqStr(v.Depr.Version), coqStr(v.Depr.Reason), coqStr(v.Depr.Link))
			}
			vs = append(vs, fmt.Sprintf("mkMVersion %s %s %s", coqStr(k), coqStr(v.Source), dep))
		}
		rs = append(rs, fmt.Sprintf("mkMRegistry %s %s", coqStr(r.Source), coqList(vs)))
	}
	return fmt.Sprintf("(mkManifest %d %s %s)", d.Format, coqList(ps), coqList(rs))
}

func coqTup4(xs [][4]string) string {
	var out []string
	for _, x := range xs {
		out = append(out, fmt.Sprintf("(%s, %s, %s, %s)", coqStr(x[0]), coqStr(x[1]), coqStr(x[2]), coqStr(x[3])))
	}
	return coqList(out)
}

func inside(root, p string) bool {
	return strings.HasPrefix(p, root+string(filepath.Separator)) && filepath.Clean(p) == p
}

func runManifest(o *Opts) {
	rng := NewRng(o.Seed)
	sink := NewSink(o.Out, "manifest", "Corr.RunManifest",
		"cases: manifest documents generated field-wise (0-4 remote packages incl. aliases sharing one directory and repeated packages, 0-2 registry packages with 0-3 versions each incl. sub-paths and deprecations; directory names, addresses, version strings and format numbers valid or hostile), written to a fresh directory and opened with OpenDir; then forward lookups for every stored and some unknown addresses, reverse lookups for paths inside package directories, the root, the manifest file, siblings and paths outside the root; plus raw JSON mutations of valid documents (oracle only); non-trivial = OpenDir succeeded with at least one package; distinct by document",
		150)
	n := 800 * o.Scale
	if o.Tier == "thorough" {
		n = 20000 * o.Scale
	}
	if o.Focus {
		n = 20000 * o.Scale
	}
	work, _ := os.MkdirTemp("", "verif-manifest-")
	defer os.RemoveAll(work)
	subPool := []string{"", "modules/vpc", "a", "a/b/c", "x.tf"}

	runDoc := func(idx int, doc *mfDoc, raw []byte) {
		root := filepath.Join(work, fmt.Sprintf("b%d", idx))
		os.MkdirAll(root, 0o755)
		defer os.RemoveAll(root)
		if raw == nil {
			raw, _ = json.Marshal(doc)
		}
		os.WriteFile(filepath.Join(root, "terraform-sources.json"), raw, 0o644)
		ob := mfObs{Root: "/bundle", Doc: doc}
		if doc == nil {
			ob.Raw = string(raw)
		}
		c := Case{Kind: "open", Key: string(raw)}
		var b *sourcebundle.Bundle
		func() {
			defer func() {
				if p := recover(); p != nil {
					ob.Panic = fmt.Sprint(p)
				}
			}()
			var err error
			b, err = sourcebundle.OpenDir(root)
			if err != nil {
				ob.Err = err.Error()
				b = nil
			}
		}()
		if ob.Panic != "" {
			c.Viol = append(c.Viol, viol("C19", fmt.Sprintf("OpenDir panics on manifest %s: %s", string(raw), ob.Panic)))
			c.Desc = ob
			sink.Add(c)
			return
		}
		// model paths use the fixed root "/bundle"; real paths are rewritten
		rw := func(p string) string {
			if strings.HasPrefix(p, root) {
				return "/bundle" + p[len(root):]
			}
			return p
		}
		if b != nil {
			ob.Opened = true
			c.Kind = "open/ok"
			if doc != nil {
				for _, p := range doc.Packages {
					l := p.Local
					if l == "" || l == "." || l == ".." || strings.ContainsAny(l, "/") {
						c.Viol = append(c.Viol, viol("C18", fmt.Sprintf("OpenDir accepted a manifest naming package directory %q", l)))
					}
				}
			}
			func() {
				defer func() {
					if p := recover(); p != nil {
						c.Viol = append(c.Viol, viol("C19", fmt.Sprintf("lookup on opened manifest %s panics: %v", string(raw), p)))
					}
				}()
				pkgs := b.RemotePackages()
				for _, p := range pkgs {
					lp, err := b.LocalPathForRemoteSource(p.SourceAddr(""))
					if err != nil {
						c.Viol = append(c.Viol, viol("C18", fmt.Sprintf("listed package %s has no local path: %v", p, err)))
						continue
					}
					if !inside(root, lp) {
						c.Viol = append(c.Viol, viol("C18", fmt.Sprintf("package %s maps to %q, outside the bundle root", p, rw(lp))))
					}
					m := b.RemotePackageMeta(p)
					cm, msg := "", ""
					if m != nil {
						cm, msg = m.GitCommitID(), m.GitCommitMessage()
					}
					ob.Pkgs = append(ob.Pkgs, [4]string{p.String(), rw(lp), cm, msg})
				}
				for _, rp := range b.RegistryPackages() {
					for _, v := range b.RegistryPackageVersions(rp) {
						src, _ := b.RegistryPackageSourceAddr(rp, v)
						reason := ""
						if d := b.RegistryPackageVersionDeprecation(rp, v); d != nil {
							reason = d.Reason
						}
						ob.Reg = append(ob.Reg, [4]string{rp.String(), v.String(), src.String(), reason})
					}
				}
				sort.SliceStable(ob.Pkgs, func(i, j int) bool { return less4(ob.Pkgs[i], ob.Pkgs[j]) })
				sort.SliceStable(ob.Reg, func(i, j int) bool { return less4(ob.Reg[i], ob.Reg[j]) })
				c.Nontrivial = len(pkgs) > 0

				// ---- forward lookups ----
				ask := func(kind, in string) {
					q := mfQuery{Kind: kind, In: in}
					var lp string
					var err error
					switch kind {
					case "remote":
						a, perr := sourceaddrs.ParseRemoteSource(in)
						if perr != nil {
							return
						}
						lp, err = b.LocalPathForRemoteSource(a)
					case "final":
						a, perr := sourceaddrs.ParseFinalSource(in)
						if perr != nil {
							return
						}
						if _, isLocal := a.(sourceaddrs.LocalSource); isLocal {
							return
						}
						lp, err = b.LocalPathForSource(a)
					}
					if err != nil {
						q.Err = err.Error()
					} else {
						q.Ok, q.Path = true, rw(lp)
						if !inside(root, lp) {
							c.Viol = append(c.Viol, viol("C18", fmt.Sprintf("%s lookup of %q returns %q, outside the bundle root", kind, in, rw(lp))))
						}
						// the way back
						back, berr := b.SourceForLocalPath(lp)
						if berr != nil {
							c.Viol = append(c.Viol, viol("C18", fmt.Sprintf("path %q returned for %q is reported as not belonging to the bundle: %v", rw(lp), in, berr)))
						} else if lp2, err2 := b.LocalPathForSource(back); err2 != nil || lp2 != lp {
							c.Viol = append(c.Viol, viol("C18", fmt.Sprintf("path %q translates to %s which translates back to %q (%v)", rw(lp), back, rw(lp2), err2)))
						}
					}
					ob.Queries = append(ob.Queries, q)
				}
				for _, p := range pkgs {
					sub := rng.Pick(subPool)
					s := p.SourceAddr(sub).String()
					ask("remote", s)
					if rng.Chance(50) {
						ask("final", s)
					}
				}
				for i := 0; i < 2; i++ {
					s, _ := genValidRemote(rng)
					ask("remote", s)
				}
				for _, rp := range b.RegistryPackages() {
					for _, v := range b.RegistryPackageVersions(rp) {
						s := rp.String() + "@" + v.String()
						if sub := rng.Pick(subPool); sub != "" {
							s += "//" + sub
						}
						ask("final", s)
					}
					ask("final", rp.String()+"@9.9.9")
				}
				ask("final", "nosuch/pkg/aws@1.0.0")

				// ---- reverse lookups ----
				var paths []string
				for _, e := range ob.Pkgs {
					real := root + e[1][len("/bundle"):]
					paths = append(paths, real, real+"/"+rng.Pick([]string{"main.tf", "modules/vpc", "a/../b", "./x//y/"}))
					// the directory name in another letter case is a different (possibly absent) directory
					paths = append(paths, filepath.Join(filepath.Dir(real), swapCase(filepath.Base(real)), "main.tf"))
					// a sibling whose name merely starts with the directory name
					paths = append(paths, real+rng.Pick([]string{"s/main.tf", "x", "2/a/b", "-other/y"}))
				}
				paths = append(paths, root, root+"/terraform-sources.json", root+"/nosuchdir/x", filepath.Dir(root), root+"/../"+filepath.Base(root)+"x/y", "/", root+"x", root+"/a1/../../escape")
				for _, p := range paths {
					q := mfQuery{Kind: "reverse", In: rw(p)}
					a, err := b.SourceForLocalPath(p)
					cleanP := filepath.Clean(p)
					if err != nil {
						q.Err = err.Error()
						for _, e := range ob.Pkgs {
							real := root + e[1][len("/bundle"):]
							if cleanP == real || strings.HasPrefix(cleanP, real+"/") {
								c.Viol = append(c.Viol, viol("C18", fmt.Sprintf("path %q lies inside package directory %q but is reported as not belonging to the bundle", rw(p), e[1])))
								break
							}
						}
					} else {
						q.Ok = true
						if rs, ok := a.(sourceaddrs.RemoteSource); ok {
							q.Pkg, q.Sub = rs.Package().String(), rs.SubPath()
						}
						lp, err2 := b.LocalPathForSource(a)
						if err2 != nil || lp != cleanP {
							c.Viol = append(c.Viol, viol("C18", fmt.Sprintf("path %q translates to %s which translates back to %q (%v)", rw(p), a, rw(lp), err2)))
						}
						if !inside(root, cleanP) {
							c.Viol = append(c.Viol, viol("C18", fmt.Sprintf("path %q outside the bundle root is attributed to %s", rw(p), a)))
						}
					}
					ob.Queries = append(ob.Queries, q)
				}
			}()
		}
		c.Desc = ob
		if doc != nil && !o.Focus {
			dom := true
			for _, p := range doc.Packages {
				dom = dom && addrInDomain(p.Source) && isASCII(p.Local)
			}
			for _, r := range doc.Registry {
				dom = dom && addrInDomain(r.Source)
				for k, v := range r.Versions {
					dom = dom && isASCII(k) && addrInDomain(v.Source)
				}
			}
			opened := "None"
			if ob.Opened {
				opened = fmt.Sprintf("(Some (mkOpened %s %s))", coqTup4(ob.Pkgs), coqTup4(ob.Reg))
			}
			var qs []string
			for _, q := range ob.Queries {
				switch q.Kind {
				case "remote":
					qs = append(qs, fmt.Sprintf("QRemote %s %s", coqStr(q.In), coqOptStr(q.Ok, q.Path)))
				case "final":
					qs = append(qs, fmt.Sprintf("QFinal %s %s", coqStr(q.In), coqOptStr(q.Ok, q.Path)))
				case "reverse":
					obs := "None"
					if q.Ok {
						obs = fmt.Sprintf("(Some (%s, %s))", coqStr(q.Pkg), coqStr(q.Sub))
					}
					qs = append(qs, fmt.Sprintf("QReverse %s %s", coqStr(q.In), obs))
				}
			}
			c.Coq = fmt.Sprintf("Case (s2l \"/bundle\") %s %s false %s %s", coqManifest(doc), coqBool(dom), opened, coqList(qs))
		}
		sink.Add(c)
	}

	corpus := []*mfDoc{
		{Format: 1, Packages: []mfPackage{{Source: "git::https://example.com/r.git", Local: ".."}}},
		{Format: 1, Packages: []mfPackage{{Source: "git::https://example.com/r.git", Local: "a/b"}}},
		{Format: 1, Packages: []mfPackage{{Source: "git::https://example.com/r.git", Local: "d"}, {Source: "git::https://example.com/other-longer.git", Local: "d"}}},
		{Format: 1, Packages: []mfPackage{{Source: "git::https://example.com/r.git", Local: "d"}},
			Registry: []mfRegistry{{Source: "hashicorp/subnets/cidr", Versions: map[string]mfVersion{"18446744073709551616.0.0": {Source: "git::https://example.com/r.git"}}, order: []string{"18446744073709551616.0.0"}}}},
		{Format: 1, Packages: []mfPackage{{Source: "git::https://example.com/r.git", Local: "d"}},
			Registry: []mfRegistry{{Source: "hashicorp/subnets/cidr", Versions: map[string]mfVersion{"1.0.0": {Source: "git::https://example.com/r.git//modules/m"}}, order: []string{"1.0.0"}}}},
		{Format: 2},
	}
	idx := 0
	for _, d := range corpus {
		runDoc(idx, d, nil)
		idx++
	}
	for i := 0; i < n; i++ {
		d := genManifest(rng)
		runDoc(idx, d, nil)
		idx++
		if rng.Chance(25) { // raw mutations of a valid document: oracle only
			raw, _ := json.Marshal(d)
			s := string(raw)
			switch rng.Intn(6) {
			case 0:
				s = strings.Replace(s, `"local":"`, `"local":"../`, 1)
			case 1:
				s = strings.Replace(s, `"local":"`, `"local":"sub/`, 1)
			case 2:
				s = strings.Replace(s, `"terraform_source_bundle":1`, `"terraform_source_bundle":"1"`, 1)
			case 3:
				if len(s) > 2 {
					s = s[:rng.Intn(len(s))]
				}
			case 4:
				s = strings.Replace(s, `"packages":[`, `"packages":[null,`, 1)
			default:
				s = strings.Replace(s, `"versions":{`, `"versions":{"99999999999999999999.0.0":{"source":"git::https://example.com/r.git","deprecation":null},`, 1)
			}
			runDoc(idx, nil, []byte(s))
			idx++
		}
	}
	sink.Close(false)
}

func less4(a, b [4]string) bool {
	for i := 0; i < 4; i++ {
		if a[i] != b[i] {
			return a[i] < b[i]
		}
	}
	return false
}

func coqOptStr(ok bool, s string) string {
	if !ok {
		return "None"
	}
	return "(Some " + coqStr(s) + ")"
}

func swapCase(s string) string {
	b := []byte(s)
	for i, c := range b {
		switch {
		case 'a' <= c && c <= 'z':
			b[i] = c - 32
		case 'A' <= c && c <= 'Z':
			b[i] = c + 32
		}
	}
	return string(b)
}
