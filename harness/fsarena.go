package main

// Arena support for the slug streams: abstract trees, materialisation,
// total snapshots (no symlink is ever followed while snapshotting), and the
// chrooted child process that runs the real Unpack / Pack with the case's root
// directory as "/".

import (
	"bytes"
	"crypto/sha256"
	"encoding/hex"
	"encoding/json"
	"fmt"
	"os"
	"os/exec"
	"path/filepath"
	"sort"
	"syscall"
	"time"
)

// TNode is an abstract file-system node (JSON-able, mirrors FS/FS.v).
type TNode struct {
	Kind   string `json:"k"` // file | dir | link | fifo
	Data   string `json:"d,omitempty"`
	Perm   uint32 `json:"p,omitempty"`
	Mtime  int64  `json:"m,omitempty"` // seconds; (0, 0) = not set unless MtimeSet
	MtimeN int64  `json:"mn,omitempty"`
	// MtimeSet: the time is an observed one (a snapshot), also when it is the epoch itself
	MtimeSet bool              `json:"ms,omitempty"`
	Target   string            `json:"t,omitempty"`
	Kids     map[string]*TNode `json:"c,omitempty"`
}

func tdir(perm uint32, kids map[string]*TNode) *TNode {
	if kids == nil {
		kids = map[string]*TNode{}
	}
	return &TNode{Kind: "dir", Perm: perm, Kids: kids}
}
func tfile(data string, perm uint32) *TNode { return &TNode{Kind: "file", Data: data, Perm: perm} }
func tlink(target string) *TNode            { return &TNode{Kind: "link", Target: target} }

func sortedKids(n *TNode) []string {
	ks := make([]string, 0, len(n.Kids))
	for k := range n.Kids {
		ks = append(ks, k)
	}
	sort.Strings(ks)
	return ks
}

// materialize writes the tree below root (root itself must exist).
func materialize(n *TNode, path string, uid int) error {
	switch n.Kind {
	case "dir":
		if err := os.Mkdir(path, 0o755); err != nil && !os.IsExist(err) {
			return err
		}
		for _, k := range sortedKids(n) {
			if err := materialize(n.Kids[k], filepath.Join(path, k), uid); err != nil {
				return err
			}
		}
		if err := os.Chmod(path, os.FileMode(n.Perm)); err != nil {
			return err
		}
	case "file":
		if err := os.WriteFile(path, []byte(n.Data), 0o644); err != nil {
			return err
		}
		if err := os.Chmod(path, os.FileMode(n.Perm)); err != nil {
			return err
		}
	case "link":
		if err := os.Symlink(n.Target, path); err != nil {
			return err
		}
	case "fifo":
		if err := syscall.Mkfifo(path, 0o644); err != nil {
			return err
		}
	}
	if uid != 0 {
		os.Lchown(path, uid, uid)
	}
	if (n.Mtime != 0 || n.MtimeN != 0) && n.Kind != "link" {
		t := time.Unix(n.Mtime, n.MtimeN)
		os.Chtimes(path, t, t)
	}
	return nil
}

// after all children exist, directory mtimes have been disturbed: set them again bottom-up
func fixDirTimes(n *TNode, path string) {
	if n.Kind != "dir" {
		return
	}
	for _, k := range sortedKids(n) {
		fixDirTimes(n.Kids[k], filepath.Join(path, k))
	}
	if n.Mtime != 0 || n.MtimeN != 0 {
		t := time.Unix(n.Mtime, n.MtimeN)
		os.Chtimes(path, t, t)
	}
}

// SnapEntry is what the snapshot records per path.
type SnapEntry struct {
	Kind   string `json:"k"`
	Perm   uint32 `json:"p"`
	Size   int64  `json:"s,omitempty"`
	MtimeS int64  `json:"m"`
	MtimeN int64  `json:"mn,omitempty"`
	Ino    uint64 `json:"i"`
	Hash   string `json:"h,omitempty"`
	Data   string `json:"d,omitempty"`
	Target string `json:"t,omitempty"`
}

// snapshot walks root physically (Lstat/Readlink only) and returns rel path -> entry ("" = root).
func snapshot(root string) map[string]SnapEntry {
	out := map[string]SnapEntry{}
	var rec func(abs, rel string)
	rec = func(abs, rel string) {
		fi, err := os.Lstat(abs)
		if err != nil {
			return
		}
		e := SnapEntry{Perm: uint32(fi.Mode().Perm()), MtimeS: fi.ModTime().Unix(), MtimeN: int64(fi.ModTime().Nanosecond())}
		if st, ok := fi.Sys().(*syscall.Stat_t); ok {
			e.Ino = st.Ino
		}
		switch {
		case fi.Mode()&os.ModeSymlink != 0:
			e.Kind = "link"
			e.Target, _ = os.Readlink(abs)
		case fi.IsDir():
			e.Kind = "dir"
		case fi.Mode().IsRegular():
			e.Kind = "file"
			e.Size = fi.Size()
			b, err := os.ReadFile(abs)
			if err != nil {
				// unreadable for us? we are root, so this is unexpected
				e.Hash = "unreadable:" + err.Error()
			} else {
				h := sha256.Sum256(b)
				e.Hash = hex.EncodeToString(h[:8])
				if len(b) <= 64 {
					e.Data = string(b)
				}
			}
		default:
			e.Kind = "special"
		}
		out[rel] = e
		if e.Kind == "dir" {
			ents, _ := os.ReadDir(abs)
			for _, d := range ents {
				r := d.Name()
				if rel != "" {
					r = rel + "/" + d.Name()
				}
				rec(filepath.Join(abs, d.Name()), r)
			}
		}
	}
	rec(root, "")
	return out
}

// ---------- chrooted child ----------

// ChildReq is what the parent asks the chrooted child to do.
type ChildReq struct {
	Op         string    `json:"op"` // unpack | pack
	Root       string    `json:"root"`
	Uid        int       `json:"uid"`
	Dst        string    `json:"dst,omitempty"`   // inside the chroot
	Slug       []byte    `json:"slug,omitempty"`  // tar.gz bytes (unpack)
	FailAt     int       `json:"fail_at"`         // reader/writer fails at this byte offset (-1 = never)
	Trunc      bool      `json:"trunc,omitempty"` // reader: EOF instead of error at FailAt
	Src        string    `json:"src,omitempty"`   // pack: source spelling
	Cwd        string    `json:"cwd,omitempty"`
	Deref      bool      `json:"deref,omitempty"`
	Ignore     bool      `json:"ignore,omitempty"`
	Allow      []string  `json:"allow,omitempty"`
	Legacy     bool      `json:"legacy,omitempty"` // use the package-level Pack()
	History    []string  `json:"history,omitempty"`
	Flags      []bool    `json:"flags,omitempty"`       // state of the shared default-rule flags before the call
	PrePack    string    `json:"pre_pack,omitempty"`    // pack this directory first with the same Packer value
	Reuse      bool      `json:"reuse,omitempty"`       // unpack: the Packer value has already unpacked another slug elsewhere
	WarmDir    string    `json:"warm_dir,omitempty"`    // ... into this directory (outside the arena; created and removed by the child)
	WriteLimit int       `json:"write_limit,omitempty"` // unpack: RLIMIT_FSIZE for the child
	Interleave string    `json:"interleave,omitempty"`  // pack: rule-file text parsed at the first write of the output
	Build      *BuildReq `json:"build,omitempty"`       // op "build": run the bundle builder (stream prepare)
}

type ChildResp struct {
	Err       string     `json:"err,omitempty"`
	Illegal   bool       `json:"illegal,omitempty"`
	Panic     string     `json:"panic,omitempty"`
	Slug      []byte     `json:"slug,omitempty"`
	MetaFiles []string   `json:"meta_files,omitempty"`
	MetaSize  int64      `json:"meta_size,omitempty"`
	HasMeta   bool       `json:"has_meta,omitempty"`
	Timeout   bool       `json:"timeout,omitempty"`
	Crashed   string     `json:"crashed,omitempty"`
	FlagsOut  []bool     `json:"flags_out,omitempty"`
	Build     *BuildResp `json:"build,omitempty"`
}

// runChild spawns this binary as "child" with the request on stdin.
func runChild(req *ChildReq, limit time.Duration) *ChildResp {
	self, _ := os.Executable()
	cmd := exec.Command(self, "child")
	b, _ := json.Marshal(req)
	cmd.Stdin = bytes.NewReader(b)
	var out, errb bytes.Buffer
	cmd.Stdout = &out
	cmd.Stderr = &errb
	if err := cmd.Start(); err != nil {
		return &ChildResp{Crashed: "start: " + err.Error()}
	}
	done := make(chan error, 1)
	go func() { done <- cmd.Wait() }()
	select {
	case err := <-done:
		var resp ChildResp
		if json.Unmarshal(out.Bytes(), &resp) != nil {
			msg := "no response"
			if err != nil {
				msg = err.Error()
			}
			tail := errb.String()
			if len(tail) > 400 {
				tail = tail[len(tail)-400:]
			}
			return &ChildResp{Crashed: msg + ": " + tail}
		}
		return &resp
	case <-time.After(limit):
		cmd.Process.Kill()
		<-done
		return &ChildResp{Timeout: true}
	}
}

func init() { streams["child"] = func(o *Opts) { childMain() } }

func childFail(msg string) {
	b, _ := json.Marshal(&ChildResp{Crashed: msg})
	os.Stdout.Write(b)
	os.Exit(0)
}

func enterRoot(req *ChildReq) {
	if err := syscall.Chroot(req.Root); err != nil {
		childFail("chroot: " + err.Error())
	}
	cwd := req.Cwd
	if cwd == "" {
		cwd = "/"
	}
	if err := os.Chdir(cwd); err != nil {
		childFail("chdir: " + err.Error())
	}
	syscall.Umask(0o022)
	if req.Uid != 0 {
		if err := syscall.Setgroups([]int{}); err != nil {
			childFail("setgroups: " + err.Error())
		}
		if err := syscall.Setgid(req.Uid); err != nil {
			childFail("setgid: " + err.Error())
		}
		if err := syscall.Setuid(req.Uid); err != nil {
			childFail("setuid: " + err.Error())
		}
	}
}

var _ = fmt.Sprint
