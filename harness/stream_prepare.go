package main

// Stream "prepare" (C10): package trees with links of every shape, special
// files and rule files are fetched by the real Builder running in a chrooted
// child (so that absolute link targets mean the same to the kernel and to the
// model); the finished bundle's package directories are walked physically, the
// arena around the target directory is compared before/after, and the file
// system at the moment of the fetch plus the final package tree go to the
// Gallina model (Bundle/Prepare.v).

import (
	"context"
	"encoding/json"
	"fmt"
	"io/fs"
	"net/url"
	"os"
	"path/filepath"
	"sort"
	"strings"
	"time"

	"github.com/hashicorp/go-slug/sourceaddrs"
	"github.com/hashicorp/go-slug/sourcebundle"
	"github.com/hashicorp/go-slug/verifhooks"
)

func init() { streams["prepare"] = runPrepare }

type BuildPkg struct {
	Addr    string   `json:"addr"`
	Tree    *TNode   `json:"tree"`
	Deps    []string `json:"deps,omitempty"`
	Hostile bool     `json:"hostile,omitempty"`
}
type BuildReq struct {
	Target string     `json:"target"`
	Pkgs   []BuildPkg `json:"pkgs"`
	Roots  []string   `json:"roots"`
}
type BuildResp struct {
	Closed   bool                 `json:"closed"`
	Errs     []string             `json:"errs,omitempty"`
	WorkDir  string               `json:"work_dir,omitempty"` // of the hostile package
	PreSnap  map[string]SnapEntry `json:"pre_snap,omitempty"` // the whole chroot right after the hostile package was fetched
	Dirs     map[string]string    `json:"dirs,omitempty"`     // package address -> local path
	Fetched  []string             `json:"fetched,omitempty"`
	FlagsPre []bool               `json:"flags_pre,omitempty"`
}

// ---- the child side ----
type childWorld struct {
	req  *BuildReq
	resp *BuildResp
}

func (w *childWorld) pkg(sourceType string, u *url.URL) *BuildPkg {
	s := u.String()
	if u.Scheme != sourceType {
		s = sourceType + "::" + s
	}
	for i := range w.req.Pkgs {
		if w.req.Pkgs[i].Addr == s {
			return &w.req.Pkgs[i]
		}
	}
	return nil
}

func substTree(n *TNode, w, wn string) *TNode {
	c := *n
	if n.Kind == "link" {
		c.Target = strings.ReplaceAll(strings.ReplaceAll(n.Target, "@WN@", wn), "@W@", w)
	}
	if n.Kids != nil {
		c.Kids = map[string]*TNode{}
		for k, v := range n.Kids {
			c.Kids[k] = substTree(v, w, wn)
		}
	}
	return &c
}

func (w *childWorld) FetchSourcePackage(ctx context.Context, sourceType string, u *url.URL, targetDir string) (sourcebundle.FetchSourcePackageResponse, error) {
	var ret sourcebundle.FetchSourcePackageResponse
	p := w.pkg(sourceType, u)
	if p == nil {
		return ret, fmt.Errorf("no such package %s", u)
	}
	w.resp.Fetched = append(w.resp.Fetched, p.Addr)
	t := substTree(p.Tree, targetDir, filepath.Base(targetDir))
	if err := materialize(t, targetDir, 0); err != nil {
		return ret, err
	}
	if p.Hostile && w.resp.PreSnap == nil {
		w.resp.WorkDir = targetDir
		w.resp.PreSnap = snapshot("/")
		w.resp.FlagsPre = verifhooks.DefaultFlags()
	}
	return ret, nil
}

func (w *childWorld) FindDependencies(fsys fs.FS, subPath string, deps *sourcebundle.Dependencies) sourcebundle.Diagnostics {
	base := deps.VerifBaseAddr().Package().String()
	for i := range w.req.Pkgs {
		if w.req.Pkgs[i].Addr == base {
			for _, d := range w.req.Pkgs[i].Deps {
				s, err := sourceaddrs.ParseRemoteSource(d)
				if err != nil {
					panic("harness: bad dep " + d)
				}
				deps.AddRemoteSource(s, w)
			}
		}
	}
	return nil
}

func childBuild(req *ChildReq, resp *ChildResp) {
	br := &BuildResp{Dirs: map[string]string{}}
	resp.Build = br
	w := &childWorld{req: req.Build, resp: br}
	b, err := sourcebundle.NewBuilder(req.Build.Target, w, nil)
	if err != nil {
		br.Errs = append(br.Errs, "NewBuilder: "+err.Error())
		return
	}
	failed := false
	for _, r := range req.Build.Roots {
		s, err := sourceaddrs.ParseRemoteSource(r)
		if err != nil {
			panic("harness: bad root " + r)
		}
		for _, d := range b.AddRemoteSource(context.Background(), s, w) {
			if d.Severity() == sourcebundle.DiagError {
				failed = true
				br.Errs = append(br.Errs, d.Description().Summary+": "+d.Description().Detail)
			}
		}
		if failed {
			return
		}
	}
	bundle, err := b.Close()
	if err != nil {
		br.Errs = append(br.Errs, "Close: "+err.Error())
		return
	}
	br.Closed = true
	for _, p := range bundle.RemotePackages() {
		lp, err := bundle.LocalPathForRemoteSource(p.SourceAddr(""))
		if err == nil {
			br.Dirs[p.String()] = lp
		}
	}
}

// ---- generation ----
type prepCase struct {
	Req      *BuildReq `json:"req"`
	HasLinks []string  `json:"shapes"`
}

func genPrepTree(rng *Rng) (*TNode, []string) {
	var shapes []string
	root := tdir(0o755, nil)
	put := func(p string, n *TNode) {
		parts := strings.Split(p, "/")
		cur := root
		for _, d := range parts[:len(parts)-1] {
			if cur.Kids[d] == nil {
				cur.Kids[d] = tdir(0o755, nil)
			}
			cur = cur.Kids[d]
			if cur.Kind != "dir" {
				return
			}
		}
		cur.Kids[parts[len(parts)-1]] = n
	}
	put("main.tf", tfile("main", 0o644))
	put("modules/a/main.tf", tfile("a", 0o644))
	put("modules/b/x.tf", tfile("bx", 0o600))
	if rng.Chance(60) {
		put("docs/readme.md", tfile("doc", 0o644))
	}
	if rng.Chance(50) {
		put("logs/app.log", tfile("log", 0o644))
	}
	if rng.Chance(50) {
		put("secret/key", tfile("k", 0o400))
		if rng.Chance(50) {
			put("secret/keep", tfile("keep", 0o644))
		}
	}
	if rng.Chance(30) {
		put(".git/config", tfile("[core]", 0o644))
	}
	if rng.Chance(30) {
		put(".terraform/modules/m.json", tfile("{}", 0o644))
		put(".terraform/plugins/p", tfile("bin", 0o755))
	}
	if rng.Chance(30) {
		put("empty", tdir(0o755, nil))
	}
	type lk struct{ at, to, shape string }
	pool := []lk{
		{"ln_file", "main.tf", "in-package file"},
		{"modules/a/up", "../b/x.tf", "in-package file via .."},
		{"ln_dir", "modules", "in-package directory"},
		{"chain1", "chain2", "chain"},
		{"abs_in", "@W@/main.tf", "absolute into the working directory"},
		{"reenter", "../@WN@/main.tf", "leaves and re-enters by the working directory's name"},
		{"to_sibling", "../sibling/mod.tf", "sibling package"},
		{"to_manifest", "../terraform-sources.json", "manifest"},
		{"out", "../../outside/secret", "out of the bundle"},
		{"abs_out", "/outside/secret", "absolute out of the bundle"},
		{"abs_out_dir", "/outside/dir", "absolute out of the bundle (directory)"},
		{"dangling", "nowhere", "dangling"},
		{"loop", "loop", "self loop"},
		{"via_ignored", "logs/app.log", "target in a possibly ignored directory"},
		{"ln_secret", "secret", "directory that may be ignored"},
		{"secret/escape", "../../../outside/secret", "escaping link inside a possibly ignored directory"},
		{"logs/out", "/outside/secret", "escaping link inside a possibly ignored directory"},
		{"docs/dot", ".", "its own directory"},
		{"rootlink", "@W@", "the package root"},
		{"updown", "modules/../main.tf", "in-package via a directory and back"},
		{"to_fifo", "pipe", "special file"},
		{"modules/b/deep", "../../../../outside/dir/f", "out of the bundle from depth"},
		{".git", "modules", "link to a directory, named like a directory the default rules exclude"},
		{"aaa", "modules/a", "link to a directory, named like a directory rule"},
		{"modules/.terraform", "a", "link to a directory, named like a directory the default rules exclude"},
		{"docs/aaa", "../modules", "link to a directory, named like a directory rule"},
		{"modules/b/same", "../../outside/secret", "same target text as an escaping link, valid from this depth"},
	}
	nl := 0
	switch k := rng.Intn(10); {
	case k < 2:
		nl = 0
	case k < 7:
		nl = 1
	default:
		nl = 2 + rng.Intn(3)
	}
	for i := 0; i < nl; i++ {
		l := pool[rng.Intn(len(pool))]
		put(l.at, tlink(l.to))
		shapes = append(shapes, l.shape)
		if l.at == "modules/b/same" {
			// the text that stays inside from modules/b leaves the bundle from the package root
			put("outside/secret", tfile("in-package", 0o644))
			put("out", tlink("../../outside/secret"))
			shapes = append(shapes, "out of the bundle")
		}
		if l.at == "chain1" {
			put("chain2", tlink(rng.Pick([]string{"main.tf", "modules/b/x.tf", "../../outside/secret", "chain1"})))
		}
	}
	if rng.Chance(12) {
		put(rng.Pick([]string{"pipe", "logs/pipe", "secret/pipe"}), &TNode{Kind: "fifo"})
		shapes = append(shapes, "fifo")
	}
	if rng.Chance(55) {
		rulesPool := []string{"logs/", "*.log", "secret", "secret/", "!secret/keep", "docs", "docs/", "modules/b", "**/x.tf", "ln_*", "out", "abs_*", "pipe", "/main.tf", "to_*", "chain2", "dangling", "loop", "reenter", "empty", "!.git/", "*/pipe", "via_ignored", "!logs/app.log", "modules/a/", "**/escape", "rootlink", "aaa/", "aaa/", "**/aaa/"}
		n := 1 + rng.Intn(4)
		var lines []string
		for i := 0; i < n; i++ {
			lines = append(lines, rng.Pick(rulesPool))
		}
		put(".terraformignore", tfile(strings.Join(lines, "\n")+"\n", 0o644))
		shapes = append(shapes, "rules")
	} else if rng.Chance(6) {
		put(".terraformignore", tlink(rng.Pick([]string{"../../outside/rules", "nowhere", "modules"})))
		shapes = append(shapes, "rule file is a link")
	}
	return root, shapes
}

func cleanPkgTree(tag string) *TNode {
	return tdir(0o755, map[string]*TNode{"main.tf": tfile("clean "+tag, 0o644), "README": tfile("r", 0o644)})
}

// physical resolution of p (a path below root) without leaving the chroot's name space:
// every link is read and interpreted against arena as "/"
func physResolve(arena string, p string) (string, os.FileInfo, bool) {
	cur := []string{}
	todo := strings.Split(strings.TrimPrefix(p, "/"), "/")
	links := 0
	for len(todo) > 0 {
		c := todo[0]
		todo = todo[1:]
		switch c {
		case "", ".":
			continue
		case "..":
			if len(cur) > 0 {
				cur = cur[:len(cur)-1]
			}
			continue
		}
		here := append(append([]string{}, cur...), c)
		fi, err := os.Lstat(filepath.Join(arena, filepath.Join(here...)))
		if err != nil {
			return "", nil, false
		}
		if fi.Mode()&os.ModeSymlink != 0 {
			links++
			if links > 40 {
				return "", nil, false
			}
			t, _ := os.Readlink(filepath.Join(arena, filepath.Join(here...)))
			if strings.HasPrefix(t, "/") {
				cur = []string{}
			}
			todo = append(strings.Split(t, "/"), todo...)
			continue
		}
		cur = here
	}
	full := filepath.Join(arena, filepath.Join(cur...))
	fi, err := os.Lstat(full)
	if err != nil {
		return "", nil, false
	}
	return "/" + strings.Join(cur, "/"), fi, true
}

func runPrepare(o *Opts) {
	rng := NewRng(o.Seed)
	sink := NewSink(o.Out, "prepare", "Corr.RunPrepare",
		"cases: package trees (regular files with odd modes, nested and empty directories, version-control and tool directories) with 0-4 links drawn from 22 shapes (in-package file/directory, chains, absolute into the working directory, leaving and re-entering it by name, to a sibling package, to the manifest, out of the bundle relative/absolute/from depth, dangling, self loop, through or inside directories a rule removes, to a special file, to the package root), fifos, and rule files of 1-4 rules (or a rule file that is itself a link); fetched as the root package or as a dependency of a clean package by the real Builder in a chrooted child; non-trivial = the build closed; distinct by tree and position",
		60)
	n := 360 * o.Scale
	if o.Tier == "thorough" {
		n = 6000 * o.Scale
	}
	if o.Focus {
		n = 6000 * o.Scale
	}
	work, _ := os.MkdirTemp("", "verif-prepare-")
	defer os.RemoveAll(work)
	os.Chmod(work, 0o755)
	for i := 0; i < n; i++ {
		tree, shapes := genPrepTree(rng)
		hostile := BuildPkg{Addr: "git::https://example.com/hostile.git", Tree: tree, Hostile: true}
		req := &BuildReq{Target: "/bundle"}
		position := "root"
		if rng.Chance(30) {
			position = "dependency"
			main := BuildPkg{Addr: "git::https://example.com/main.git", Tree: cleanPkgTree("main"), Deps: []string{hostile.Addr}}
			req.Pkgs = []BuildPkg{main, hostile}
			req.Roots = []string{main.Addr}
		} else {
			req.Pkgs = []BuildPkg{hostile}
			req.Roots = []string{hostile.Addr}
			if rng.Chance(30) {
				dep := BuildPkg{Addr: "git::https://example.com/dep.git", Tree: cleanPkgTree("dep")}
				req.Pkgs = append(req.Pkgs, dep)
				req.Pkgs[0].Deps = []string{dep.Addr}
			}
		}
		arena := filepath.Join(work, fmt.Sprintf("a%d", i))
		os.MkdirAll(filepath.Join(arena, "bundle", "sibling"), 0o755)
		os.MkdirAll(filepath.Join(arena, "outside", "dir"), 0o755)
		os.WriteFile(filepath.Join(arena, "bundle", "sibling", "mod.tf"), []byte("sibling"), 0o644)
		os.WriteFile(filepath.Join(arena, "outside", "secret"), []byte("secret"), 0o644)
		os.WriteFile(filepath.Join(arena, "outside", "rules"), []byte("*.tf\n"), 0o644)
		os.WriteFile(filepath.Join(arena, "outside", "dir", "f"), []byte("f"), 0o644)
		outsideBefore := snapshot(filepath.Join(arena, "outside"))
		resp := runChild(&ChildReq{Op: "build", Root: arena, Build: req}, 20*time.Second)
		kb, _ := json.Marshal(req)
		c := Case{Kind: "build/" + position, Key: string(kb)}
		desc := map[string]interface{}{"request": req, "shapes": shapes, "position": position}
		switch {
		case resp.Timeout:
			c.Viol = append(c.Viol, viol("C19", "building a bundle from this package does not return within 20 s"))
		case resp.Panic != "":
			c.Viol = append(c.Viol, viol("C19", "building a bundle from this package panics: "+resp.Panic))
		case resp.Crashed != "" || resp.Build == nil:
			c.Viol = append(c.Viol, viol("C19", "build child crashed: "+resp.Crashed))
		}
		if br := resp.Build; br != nil && !resp.Timeout && resp.Panic == "" {
			desc["closed"], desc["errors"], desc["dirs"], desc["work_dir"] = br.Closed, br.Errs, br.Dirs, br.WorkDir
			after := snapshot(arena)
			// (v) nothing outside the target directory is touched
			if d := diffSnap(outsideBefore, snapshot(filepath.Join(arena, "outside"))); d != "" {
				c.Viol = append(c.Viol, viol("C10", "the build changed something outside the target directory: outside/"+d))
			}
			for p := range after {
				if p != "" && !strings.HasPrefix(p, "bundle") && !strings.HasPrefix(p, "outside") {
					c.Viol = append(c.Viol, viol("C10", "the build created "+p+" outside the target directory"))
				}
			}
			var finalTree *TNode
			if br.Closed {
				c.Kind += "/closed"
				c.Nontrivial = true
				// (ii) no temporary directory is left
				for p := range after {
					if strings.HasPrefix(p, "bundle/.tmp-") {
						c.Viol = append(c.Viol, viol("C10", "finished bundle still contains temporary directory "+strings.SplitN(p, "/", 3)[1]))
						break
					}
				}
				for addr, lp := range br.Dirs {
					pkgRel := strings.TrimPrefix(lp, "/")
					var ignoreText string
					useDefault := true
					if e, ok := after[pkgRel+"/.terraformignore"]; ok {
						if e.Kind == "file" {
							ignoreText, useDefault = e.Data, false
						} else if _, fi, ok := physResolve(arena, lp+"/.terraformignore"); ok && fi.Mode().IsRegular() {
							useDefault = false
							ignoreText = "\x00unknown"
						}
					}
					var ref refRuleset
					if useDefault {
						ref = refParse("")
					} else if ignoreText != "\x00unknown" {
						ref = refParse(ignoreText)
					}
					var paths []string
					for p := range after {
						if strings.HasPrefix(p, pkgRel+"/") {
							paths = append(paths, p)
						}
					}
					sort.Strings(paths)
					for _, p := range paths {
						e := after[p]
						rel := p[len(pkgRel)+1:]
						// (i) kinds and link containment
						switch e.Kind {
						case "file", "dir":
						case "link":
							real, fi, ok := physResolve(arena, "/"+p)
							switch {
							case !ok:
								c.Viol = append(c.Viol, viol("C10", fmt.Sprintf("finished bundle: %s has link %s -> %s that resolves to nothing", addr, rel, e.Target), linkSig(e.Target)...))
							case real != lp && !strings.HasPrefix(real, lp+"/"):
								c.Viol = append(c.Viol, viol("C10", fmt.Sprintf("finished bundle: %s has link %s -> %s that resolves to %s, outside its package directory", addr, rel, e.Target, real), linkSig(e.Target)...))
							case !(fi.Mode().IsRegular() || fi.IsDir()):
								c.Viol = append(c.Viol, viol("C10", fmt.Sprintf("finished bundle: %s has link %s -> %s that resolves to a special file", addr, rel, e.Target)))
							}
						default:
							c.Viol = append(c.Viol, viol("C10", fmt.Sprintf("finished bundle: %s contains special file %s", addr, rel)))
						}
						// (iii) nothing the rules exclude is left
						if useDefault || ignoreText != "\x00unknown" {
							if ref.ok && (ref.excluded(rel) || (e.Kind == "dir" && ref.excluded(rel+"/"))) {
								c.Viol = append(c.Viol, viol("C10", fmt.Sprintf("finished bundle: %s still contains %s, which its ignore rules exclude", addr, rel)))
							}
						}
					}
				}
				if lp, ok := br.Dirs[hostile.Addr]; ok {
					sub := map[string]SnapEntry{}
					pkgRel := strings.TrimPrefix(lp, "/")
					for p, e := range after {
						if p == pkgRel {
							sub[""] = e
						} else if strings.HasPrefix(p, pkgRel+"/") {
							sub[p[len(pkgRel)+1:]] = e
						}
					}
					finalTree = snapToTree(sub)
				}
			}
			// ---- the model ----
			if br.PreSnap != nil && !o.Focus {
				pre := snapToTree(br.PreSnap)
				wcomps := strings.Split(strings.TrimPrefix(br.WorkDir, "/"), "/")
				final := "None"
				if finalTree != nil {
					final = "(Some " + coqNode(finalTree) + ")"
				}
				if br.Closed == (finalTree != nil) {
					c.Coq = fmt.Sprintf("CPrepare %s %s %s %s", coqNode(pre), coqStrList(wcomps), coqBoolList(br.FlagsPre), final)
				}
			}
		}
		c.Desc = desc
		sink.Add(c)
		os.RemoveAll(arena)
	}
	sink.Close(false)
}

// linkSig: mechanisms of the known findings about links that are valid while the
// package sits in its temporary directory and stop being so once it is renamed
func linkSig(target string) []string {
	if strings.HasPrefix(target, "/bundle/.tmp-") {
		return []string{"absolute_link_into_temporary_directory"}
	}
	if strings.Contains(target, "/.tmp-") {
		return []string{"link_reentering_temporary_directory_by_name"}
	}
	return nil
}

func diffSnap(a, b map[string]SnapEntry) string {
	for p, ea := range a {
		eb, ok := b[p]
		if !ok {
			return p + " removed"
		}
		if ea.Kind != eb.Kind || ea.Hash != eb.Hash || ea.Target != eb.Target || ea.Perm != eb.Perm || ea.Ino != eb.Ino || ea.MtimeS != eb.MtimeS || ea.MtimeN != eb.MtimeN {
			return p + " changed"
		}
	}
	for p := range b {
		if _, ok := a[p]; !ok {
			return p + " created"
		}
	}
	return ""
}

func coqBoolList(bs []bool) string {
	var xs []string
	for _, b := range bs {
		xs = append(xs, coqBool(b))
	}
	return coqList(xs)
}
