package main

// Stream "addr": source-address parsing and printing (C06 canonical text, C07
// transport policy, C19 robustness): strings from a grammar of every address
// kind plus single-rule violations and hostile strings are given to the real
// parsers; every accepted value and every value derived from it is printed,
// re-parsed and compared; an independent policy predicate is evaluated on the
// accessors; in-grammar strings are also emitted for the Gallina model.

import (
	"fmt"
	"net/url"
	"strings"
	"unicode/utf8"

	"github.com/apparentlymart/go-versions/versions"
	"github.com/hashicorp/go-slug/sourceaddrs"
)

func init() { streams["addr"] = runAddr }

type addrObs struct {
	In      string `json:"in"`
	Api     string `json:"api"`
	Ok      bool   `json:"ok"`
	Kind    string `json:"kind,omitempty"`
	Str     string `json:"str,omitempty"`
	Type    string `json:"type,omitempty"`
	Scheme  string `json:"scheme,omitempty"`
	Host    string `json:"host,omitempty"`
	Path    string `json:"path,omitempty"`
	RawPath string `json:"raw_path,omitempty"`
	Query   string `json:"query,omitempty"`
	Frag    string `json:"frag,omitempty"`
	User    bool   `json:"user,omitempty"`
	Sub     string `json:"sub,omitempty"`
	Pkg     string `json:"pkg,omitempty"`
	Ver     string `json:"ver,omitempty"`
	Err     string `json:"err,omitempty"`
	Panic   string `json:"panic,omitempty"`
	// the constructor route
	MakeTyp string `json:"make_typ,omitempty"`
	MakeRaw string `json:"make_raw,omitempty"`
	MakeSub string `json:"make_sub,omitempty"`
}

func safeParse(api, s string) (v interface{}, err error, pn interface{}) {
	defer func() {
		if p := recover(); p != nil {
			pn = p
		}
	}()
	switch api {
	case "source":
		v, err = sourceaddrs.ParseSource(s)
	case "final":
		v, err = sourceaddrs.ParseFinalSource(s)
	case "remote":
		v, err = sourceaddrs.ParseRemoteSource(s)
	case "remotepkg":
		v, err = sourceaddrs.ParseRemotePackage(s)
	case "registry":
		v, err = sourceaddrs.ParseRegistrySource(s)
	case "registrypkg":
		v, err = sourceaddrs.ParseRegistryPackage(s)
	case "finalregistry":
		v, err = sourceaddrs.ParseFinalRegistrySource(s)
	case "local":
		v, err = sourceaddrs.ParseLocalSource(s)
	}
	return
}

func describe(in, api string, v interface{}, err error, pn interface{}) (o addrObs) {
	o = addrObs{In: in, Api: api}
	defer func() {
		// printing an accepted value must not panic either
		if p := recover(); p != nil {
			o = addrObs{In: in, Api: api, Panic: "printing the parsed value: " + fmt.Sprint(p)}
		}
	}()
	if pn != nil {
		o.Panic = fmt.Sprint(pn)
		return o
	}
	if err != nil {
		o.Err = err.Error()
		return o
	}
	o.Ok = true
	fill := func(p sourceaddrs.RemotePackage) {
		u := p.URL()
		o.Type, o.Scheme, o.Host, o.Path, o.Query, o.Frag, o.User = p.SourceType(), u.Scheme, u.Host, u.Path, u.RawQuery, u.Fragment, u.User != nil
		o.RawPath = u.RawPath
		o.Pkg = p.String()
	}
	switch a := v.(type) {
	case sourceaddrs.LocalSource:
		o.Kind, o.Str, o.Sub = "local", a.String(), a.RelativePath()
	case sourceaddrs.RemoteSource:
		o.Kind, o.Str, o.Sub = "remote", a.String(), a.SubPath()
		fill(a.Package())
	case sourceaddrs.RemotePackage:
		o.Kind, o.Str = "remotepkg", a.String()
		fill(a)
	case sourceaddrs.RegistrySource:
		o.Kind, o.Str, o.Sub, o.Pkg = "registry", a.String(), a.SubPath(), a.Package().String()
	case sourceaddrs.RegistrySourceFinal:
		o.Kind, o.Str, o.Sub, o.Pkg, o.Ver = "registryfinal", a.String(), a.SubPath(), a.Package().String(), a.SelectedVersion().String()
	default:
		if mp, ok := v.(interface{ String() string }); ok {
			o.Kind, o.Str = "registrypkg", mp.String()
			o.Pkg = o.Str
		}
	}
	return o
}

// reparse: the API that must accept the printed form of a value of that kind
func reparseAPI(kind string) string {
	switch kind {
	case "local":
		return "local"
	case "remote":
		return "remote"
	case "remotepkg":
		return "remotepkg"
	case "registry":
		return "registry"
	case "registryfinal":
		return "finalregistry"
	case "registrypkg":
		return "registrypkg"
	}
	return ""
}

// sameKind: the general parsers (ParseSource for sources, ParseFinalSource for final
// sources) must send the printed form of a value back to a value of its own kind,
// equal to it.  Both refuse leading and trailing white space by a documented rule of
// their own, so such texts are left to the kind's own parser.
func sameKind(v interface{}, ob addrObs) []string {
	if strings.TrimSpace(ob.Str) != ob.Str {
		return nil
	}
	var apis []string
	switch ob.Kind {
	case "local", "remote":
		apis = []string{"source", "final"}
	case "registry":
		apis = []string{"source"}
	case "registryfinal":
		apis = []string{"final"}
	}
	var bad []string
	for _, ga := range apis {
		g, gerr, gpn := safeParse(ga, ob.Str)
		name := map[string]string{"source": "ParseSource", "final": "ParseFinalSource"}[ga]
		switch {
		case gpn != nil:
			bad = append(bad, fmt.Sprintf("%s panics on it: %v", name, gpn))
		case gerr != nil:
			bad = append(bad, fmt.Sprintf("%s refuses it: %v", name, gerr))
		case !sameValue(v, g):
			bad = append(bad, fmt.Sprintf("%s reads it as a different value (%T printing %q)", name, g, describe("", "", g, nil, nil).Str))
		}
	}
	return bad
}

// policy: the documented transport policy, written against the accessors only.
func policy(o addrObs) []string {
	var bad []string
	if o.Kind != "remote" && o.Kind != "remotepkg" {
		return nil
	}
	q, _ := url.ParseQuery(o.Query)
	switch o.Type {
	case "git":
		if o.Scheme != "https" && o.Scheme != "ssh" {
			bad = append(bad, "git source with scheme "+o.Scheme)
		}
		for k, vs := range q {
			if k != "ref" {
				bad = append(bad, "git source with query argument "+k)
			}
			if len(vs) > 1 {
				bad = append(bad, "git source with repeated ref")
			}
		}
	case "https", "http":
		if o.Scheme != "https" {
			bad = append(bad, "archive source with scheme "+o.Scheme)
		}
		if len(q["checksum"]) > 0 {
			bad = append(bad, "archive source with checksum argument")
		}
		if a := q["archive"]; len(a) > 0 {
			if len(a) != 1 || a[0] != "tgz" {
				bad = append(bad, fmt.Sprintf("archive argument %v not normalised to a single tgz", a))
			}
		} else if !(strings.HasSuffix(o.Path, ".tar.gz") || strings.HasSuffix(o.Path, ".tgz")) {
			bad = append(bad, "archive source whose path is neither .tar.gz nor .tgz and without archive argument")
		}
	default:
		bad = append(bad, "unknown source type "+o.Type)
	}
	if o.User {
		bad = append(bad, "user name or password present")
	}
	if o.Sub != "" && !subOK(o.Sub) {
		bad = append(bad, "sub-path with empty, . or .. segment: "+o.Sub)
	}
	return bad
}

// ---- generators ----

var hostPool = []string{"example.com", "git.example.org", "EXAMPLE.com", "example.com:8080", "a-b.example.io", "xn--nothing.example", "テラフォーム.example.com", "localhost",
	"example.com:", "example.com:443", "ex_ample.com", "example.com:80:80", "-a.example.com", "a..example.com", "example.com.", "1.2.3.4", "ex%41mple.com", "ex%C3%A9.com", "[::1]", "ab--c.example.com", "a.b-.com"}
var pathPool = []string{"/team%2Frepo.git/", "/a%7Eb/r.git/", "/team%2Frepo.git", "/repo.git", "/org/repo.git", "/a/b/c", "/x.tgz", "/dl/x.tar.gz", "/x.zip", "", "/", "/a%20b.tgz", "/a b.tgz", "/sp+ace.tgz", "/r.git/",
	"/%41.tgz", "/a%2Fb.tgz", "/a%2fb.tgz", "/a:b.tgz", "/a@b.tgz", "/a;b.tgz", "/x.tgz/", "/~u/x.tar.gz", "/a=b&c.tgz", "/%zz.tgz", "/%4", "/x.TGZ", "/a!b.tgz", "/a'b.tgz", "/a(b)*.tgz", "/a[b].tgz", "/a,b.tgz", "/a$b.tgz", "/x%2Etgz"}
var subPoolA = []string{"modules/%2e%2e/%2e%2e/secrets", "%2e", "a%2f%2fb", "%2e%2e/x", "", "modules/vpc", "a", "a/b/c", "..", "a/../b", "./a", "a//b", "a b", "a%20b", "ünï", "a#f", "a?b", "a/", "/a", "a.b/c_d-e", "a:b", "a@b", "a%41", "a+b", "a=b&c", "a;b", "~a", "a!b", "a'(b)*"}
var queryPool = []string{"", "ref=main", "ref=v1.0", "ref=a&ref=b", "depth=1", "archive=tgz", "archive=tar.gz", "archive=zip", "archive=tgz&archive=tgz", "checksum=md5:abc", "a=b", "ref=main&x=y", "sshkey=abc", "REF=main", "ref=a%20b", "ref",
	"ref=a+b", "ref=", "=x", "&", "ref=a&", "&ref=a", "ref=a;b", "ref=%zz", "archive=tar.gz&z=1&a=2", "archive=tgz&b=%2F&a=x y", "archive=tar.gz&archive=tgz", "a=1&archive=tgz&a=0", "archive=tgz&checksum=x", "checksum=", "archive", "archive=",
	"ref=a=b", "ref=a?b", "ref=a/b", "ref=%41", "r%65f=x", "x=https://h//y", "archive=tgz&k=ü", "archive=tgz&k=%C3%BC", "archive=tgz&+= ",
	"archive=tar%2Egz", "%61rchive=tar.gz", "xarchive=tar.gz&archive=tar.gz", "myarchive=tar.gz&archive=tar.gz&b=1", "archive=tar.gz&xarchive=tar.gz", "archive=t%67z"}

var goodLabel = []string{"example", "git", "a-b", "x1", "dl", "Example", "code"}
var goodSeg = []string{"org", "repo", "a", "b.c", "mod_1", "v-2", "~u", "X"}

func genHostOK(rng *Rng) string {
	h := rng.Pick(goodLabel) + "." + rng.Pick([]string{"com", "org", "io", "example.net"})
	if rng.Chance(20) {
		h += rng.Pick([]string{":8080", ":443", ":22", ":"})
	}
	return h
}

func genSubOK(rng *Rng) string {
	n := 1 + rng.Intn(3)
	segs := make([]string, n)
	for i := range segs {
		segs[i] = rng.Pick(goodSeg)
	}
	return strings.Join(segs, "/")
}

func caseMix(rng *Rng, s string) string {
	switch rng.Intn(6) {
	case 0:
		return strings.ToUpper(s)
	case 1:
		return strings.ToUpper(s[:1]) + s[1:]
	}
	return s
}

// genValidRemote: an address that follows the documented grammar; it must be accepted.
func genValidRemote(rng *Rng) (string, string) {
	sub := ""
	if rng.Chance(50) {
		sub = genSubOK(rng)
	}
	path := ""
	for i, n := 0, 1+rng.Intn(3); i < n; i++ {
		path += "/" + rng.Pick(goodSeg)
	}
	switch rng.Intn(4) {
	case 0: // git over https or ssh, explicit type
		s := caseMix(rng, "git") + "::" + caseMix(rng, rng.Pick([]string{"https", "ssh"})) + "://" + genHostOK(rng) + path + rng.Pick([]string{"", ".git"})
		if sub != "" {
			s += "//" + sub
		}
		if rng.Chance(40) {
			s += "?ref=" + rng.Pick([]string{"main", "v1.0.0", "feature-x", "abc123"})
		}
		return s, sub
	case 1: // archive by suffix
		s := caseMix(rng, "https") + "://" + genHostOK(rng) + path + rng.Pick([]string{".tgz", ".tar.gz"})
		if sub != "" {
			s += "//" + sub
		}
		if rng.Chance(30) {
			s += "?" + rng.Pick([]string{"token=abc", "a=1&b=2", "v=1.2"})
		}
		return s, sub
	case 2: // archive by argument
		s := "https://" + genHostOK(rng) + path
		if sub != "" {
			s += "//" + sub
		}
		s += "?" + rng.Pick([]string{"archive=tgz", "archive=tar.gz", "archive=tgz&token=x", "b=1&archive=tar.gz", "xarchive=tar.gz&archive=tar.gz", "archive=tar%2Egz"})
		return s, sub
	default: // shorthand
		h := rng.Pick([]string{"github.com", "gitlab.com"})
		s := h + "/" + rng.Pick([]string{"hashicorp", "org", "a-b"}) + "/" + rng.Pick([]string{"repo", "repo.git", "go-slug", "x_y"})
		if sub != "" && !(h == "gitlab.com" && !strings.Contains(sub, "/")) {
			s += "/" + sub
		} else {
			sub = ""
		}
		if rng.Chance(30) {
			s += "?ref=main"
		}
		return s, sub
	}
}

var regHostPool = []string{"example.com", "registry.terraform.io", "app.terraform.io:443", "Example.COM", "github.com", "gitlab.com", "テラフォーム.example.com", "nodot", "example.com:8080",
	"bitbucket.org", "github.com:443", "example.com:+443", "example.com:-1", "example.com:65536", "example.com:0080", "example.com:", "example.com:x", "a..", "a.b.", ".a.b", "a..b", "xn--a.com", "XN--a.com", "ab--c.com", "-a.com", "a-.com", "a_b.com", "a.com:99999999999999999999", "exa mple.com", "a.b:1:2"}

func genRegistry(rng *Rng) string {
	host := ""
	if rng.Chance(50) {
		if rng.Chance(50) {
			host = genHostOK(rng) + "/"
		} else {
			host = rng.Pick(regHostPool) + "/"
		}
	}
	ns := rng.Pick([]string{"hashicorp", "ns", "N-s_1", "-bad", "a.b", "", "a", "a-", "x_", strings.Repeat("a", 64), strings.Repeat("a", 65), "ns", "hashicorp"})
	name := rng.Pick([]string{"subnets", "name", "n_a-me", "bad-", "x", "9", "na me", "name", "subnets"})
	sys := rng.Pick([]string{"cidr", "aws", "AWS", "a-b", "sys1", "", strings.Repeat("z", 64), strings.Repeat("z", 65), "aws", "cidr"})
	s := host + ns + "/" + name + "/" + sys
	if rng.Chance(40) {
		if rng.Chance(60) {
			s += "//" + genSubOK(rng)
		} else {
			s += "//" + rng.Pick(subPoolA)
		}
	}
	if rng.Chance(5) {
		s += "?ref=x"
	}
	return s
}

func genValidRegistry(rng *Rng) (string, string) {
	host := ""
	if rng.Chance(50) {
		host = rng.Pick(goodLabel) + "." + rng.Pick([]string{"com", "io", "example.net"}) + rng.Pick([]string{"", "", ":8443"}) + "/"
		if rng.Chance(20) { // internationalised names: mapped for comparison, displayed in unicode
			host = rng.Pick([]string{"テラフォーム.example.com", "bücher.example", "Ünicode.Example.com", "пример.example.org:8443", "ß.example.com"}) + "/"
		}
	}
	s := host + rng.Pick([]string{"hashicorp", "ns", "N-s_1", "a"}) + "/" + rng.Pick([]string{"subnets", "n_a-me", "x"}) + "/" + rng.Pick([]string{"cidr", "aws", "sys1"})
	sub := ""
	if rng.Chance(40) {
		sub = genSubOK(rng)
		s += "//" + sub
	}
	return s, sub
}

func genRemote(rng *Rng) string {
	if rng.Chance(45) {
		s, _ := genValidRemote(rng)
		return s
	}
	typ := rng.Pick([]string{"", "", "git::", "git::", "https::", "http::", "GIT::", "hg::", "s3::", "git:::", "::", "git2::", "gi-t::", "git::git::"})
	scheme := rng.Pick([]string{"https", "https", "ssh", "http", "git", "HTTPS", "ftp", "file", "Https", "h2", "1x", "a+b", ""})
	user := ""
	if rng.Chance(8) {
		user = rng.Pick([]string{"git@", "user:pw@", ":pw@", "@", "a%40b@", "a b@"})
	}
	host := rng.Pick(hostPool)
	if rng.Chance(50) {
		host = genHostOK(rng)
	}
	sep := "://"
	if rng.Chance(4) {
		sep = rng.Pick([]string{":", ":/", ":///", "//"})
	}
	s := typ + scheme + sep + user + host + rng.Pick(pathPool)
	if rng.Chance(45) {
		s += "//" + rng.Pick(subPoolA)
	}
	if q := rng.Pick(queryPool); rng.Chance(55) {
		s += "?" + q
	}
	if rng.Chance(4) {
		s += rng.Pick([]string{"#frag", "#", "#a#b", "#a%20b", "#a b"})
	}
	return s
}

func genShorthand(rng *Rng) string {
	h := rng.Pick([]string{"github.com", "gitlab.com", "GitHub.com"})
	parts := []string{h, rng.Pick([]string{"hashicorp", "org"}), rng.Pick([]string{"repo", "repo.git", "go-slug", "xgit"})}
	n := rng.Intn(4)
	for i := 0; i < n; i++ {
		parts = append(parts, rng.Pick([]string{"modules", "a", "..", "b.c", ""}))
	}
	if rng.Chance(10) {
		parts = parts[:2]
	}
	s := strings.Join(parts, "/")
	if rng.Chance(20) {
		s += rng.Pick([]string{"?ref=main", "?ref=a&ref=b", "?x=1", "//sub"})
	}
	return s
}

func genLocal(rng *Rng) string {
	n := 1 + rng.Intn(4)
	segs := []string{rng.Pick([]string{".", "..", ".", "a"})}
	for i := 0; i < n; i++ {
		segs = append(segs, rng.Pick([]string{"a", "b", "..", ".", "", "c.d", "a:b", "a\\b"}))
	}
	return strings.Join(segs, "/")
}

var versionPool = []string{"1.0.0", "1.2.3-beta.1", "0.0.0", "1.0", "v1.0.0", "1.0.0+meta", "", "1", "1.", "1.0.0-", "1.0.0+", "1.0.0-+", "1.0.0-a+", "01.002.3", "1.2.3.4", "1..2", "18446744073709551615.0.0", "18446744073709551616.0.0",
	"1.0.0-a+b-c", "1.0.0-a.b-c", "1.x.0", "*", "1.0.0-a_b", "=1.0.0", "1.0.0 ", "1.0.0-rc1+build.5", "1.0.0@2.0.0", "1@"}

func genFinal(rng *Rng) string {
	var r string
	if rng.Chance(50) {
		r, _ = genValidRegistry(rng)
	} else {
		r = genRegistry(rng)
	}
	parts := strings.SplitN(r, "//", 2)
	ver := rng.Pick(versionPool)
	if rng.Chance(50) {
		ver = fmt.Sprintf("%d.%d.%d", rng.Intn(4), rng.Intn(12), rng.Intn(30)) + rng.Pick([]string{"", "", "-beta", "-rc.1", "+b1"})
	}
	s := parts[0] + "@" + ver
	if len(parts) == 2 {
		s += "//" + parts[1]
	}
	return s
}

func mutateString(rng *Rng, s string) string {
	if len(s) == 0 {
		return s
	}
	switch rng.Intn(6) {
	case 0:
		i := rng.Intn(len(s))
		return s[:i] + rng.Pick([]string{"?", "://", "//", "::", "@", "#", " ", "%", "\\", ":", "?://", "\n", "\x00", "é"}) + s[i:]
	case 1:
		i := rng.Intn(len(s))
		return s[:i]
	case 2:
		i := rng.Intn(len(s))
		return s[i:]
	case 3:
		return s + rng.Pick([]string{"?", "//", "?://", "::", "@", " "})
	case 4:
		return rng.Pick([]string{" ", "::", "?://", "foo?://"}) + s
	default:
		return strings.ToUpper(s)
	}
}

func runAddr(o *Opts) {
	rng := NewRng(o.Seed)
	sink := NewSink(o.Out, "addr", "Corr.RunAddr",
		"cases: strings derived from the documented grammar of every address kind (local, registry with/without host, final registry, remote with explicit/implied type, github/gitlab shorthand; ports, queries, letter case, unicode hosts, escapes), single-rule violations, and mutated / hostile strings (inserted '?', '://', '::', '@', '#', '%', spaces, NUL, truncations), each given to every Parse* entry point; accepted values are printed, re-parsed and compared, values derived through ResolveRelative*, Versioned, SourceAddr, FinalSourceAddr and MakeRemoteSource likewise; non-trivial = accepted; distinct by (entry point, string)",
		800)
	n := 4000 * o.Scale
	if o.Tier == "thorough" {
		n = 150000 * o.Scale
	}
	if o.Focus {
		n = 100000 * o.Scale
	}
	apis := []string{"source", "final", "remote", "remotepkg", "registry", "registrypkg", "finalregistry", "local"}
	corpus := []string{"foo?://", "example.com/foo.tar.gz?next=https://x", "./", "../", "./.", "git::https://example.com/r.git//a b", "https://example.com/x.tgz#f//sub",
		"https:foo.tgz//sub", "git::https://user:pw@example.com/r.git", "hashicorp/subnets/cidr", "github.com/hashicorp/go-slug//a/b?ref=main", "hashicorp/subnets/cidr@18446744073709551616", "hashicorp/subnets/cidr@1.", "hashicorp/subnets/cidr@1.0.0+", "hashicorp/subnets/cidr@1.0.0-a+"}
	seenVals := map[string]addrObs{}
	check := func(in, api string) {
		v, err, pn := safeParse(api, in)
		ob := describe(in, api, v, err, pn)
		c := Case{Desc: ob, Kind: "parse/" + api, Key: api + "|" + in, Nontrivial: ob.Ok}
		if ob.Panic != "" {
			// C19 quantifies over valid UTF-8 strings; other byte strings are exercised but not judged
			if utf8.ValidString(in) {
				c.Viol = append(c.Viol, viol("C19", fmt.Sprintf("%s(%q) panics: %s", api, in, ob.Panic)))
			} else {
				c.Kind = "parse/invalid-utf8-panic"
			}
			sink.Add(c)
			return
		}
		if ob.Ok {
			c.Kind += "/ok"
			// C07
			for _, b := range policy(ob) {
				c.Viol = append(c.Viol, viol("C07", fmt.Sprintf("%s(%q) accepted %q: %s", api, in, ob.Str, b)))
			}
			// C06: print -> parse -> same value, same print
			if ra := reparseAPI(ob.Kind); ra != "" {
				v2, err2, pn2 := safeParse(ra, ob.Str)
				ob2 := describe(ob.Str, ra, v2, err2, pn2)
				sig := addrSignatures(ob)
				switch {
				case pn2 != nil:
					c.Viol = append(c.Viol, viol("C19", fmt.Sprintf("re-parsing printed address %q panics", ob.Str)))
				case !ob2.Ok:
					c.Viol = append(c.Viol, viol("C06", fmt.Sprintf("%s(%q) prints %q which does not parse back: %s", api, in, ob.Str, ob2.Err), sig...))
				case ob2.Str != ob.Str:
					c.Viol = append(c.Viol, viol("C06", fmt.Sprintf("%s(%q) prints %q which parses to something printing %q (printing is not idempotent)", api, in, ob.Str, ob2.Str), sig...))
				case !sameValue(v, v2):
					c.Viol = append(c.Viol, viol("C06", fmt.Sprintf("%s(%q) prints %q which parses back to a different value", api, in, ob.Str), sig...))
				default:
					// "of the same kind": the general parsers classify the printed text as the kind it was printed from
					for _, bad := range sameKind(v, ob) {
						c.Viol = append(c.Viol, viol("C06", fmt.Sprintf("%s(%q) prints %q: %s", api, in, ob.Str, bad), sig...))
					}
				}
			}
			// two accepted values: equal iff same print
			key := ob.Kind + "|" + ob.Str
			if prev, ok := seenVals[key]; ok {
				pv, _, _ := safeParse(prev.Api, prev.In)
				if !sameValue(pv, v) {
					c.Viol = append(c.Viol, viol("C06", fmt.Sprintf("%q and %q are accepted as different values that print the same %q", prev.In, in, ob.Str), addrSignatures(ob)...))
				}
			} else if len(seenVals) < 20000 {
				seenVals[key] = ob
			}
		}
		if coq := addrCaseCoq(ob); coq != "" && !o.Focus {
			c.Coq = coq
		}
		sink.Add(c)
	}
	for _, s := range corpus {
		for _, api := range apis {
			check(s, api)
		}
	}
	for i := 0; i < n; i++ {
		var s string
		switch k := rng.Intn(10); {
		case k < 4:
			s = genRemote(rng)
		case k < 6:
			s = genRegistry(rng)
		case k < 7:
			s = genShorthand(rng)
		case k < 8:
			s = genLocal(rng)
		default:
			s = genFinal(rng)
		}
		if rng.Chance(25) {
			s = mutateString(rng, s)
		}
		api := apis[rng.Intn(len(apis))]
		if rng.Chance(60) {
			api = []string{"source", "final"}[rng.Intn(2)]
		}
		check(s, api)
	}
	// ---- the documented grammar must be accepted (C07, converse direction) ----
	for i := 0; i < n/4; i++ {
		in, sub := genValidRemote(rng)
		api := rng.Pick([]string{"source", "final", "remote"})
		v, err, pn := safeParse(api, in)
		ob := describe(in, api, v, err, pn)
		c := Case{Desc: ob, Kind: "grammar/" + api, Key: "grammar|" + api + "|" + in, Nontrivial: ob.Ok}
		switch {
		case pn != nil:
			c.Viol = append(c.Viol, viol("C19", fmt.Sprintf("%s(%q) panics: %v", api, in, pn)))
		case !ob.Ok:
			c.Viol = append(c.Viol, viol("C07", fmt.Sprintf("%s(%q) follows the documented grammar but is rejected: %s", api, in, ob.Err)))
		case ob.Kind != "remote" || ob.Sub != sub:
			c.Viol = append(c.Viol, viol("C07", fmt.Sprintf("%s(%q) follows the documented grammar for a remote address with sub-path %q but gives %s %q sub-path %q", api, in, sub, ob.Kind, ob.Str, ob.Sub)))
		default:
			for _, b := range policy(ob) {
				c.Viol = append(c.Viol, viol("C07", fmt.Sprintf("%s(%q) accepted %q: %s", api, in, ob.Str, b)))
			}
		}
		if coq := addrCaseCoq(ob); coq != "" && !o.Focus {
			c.Coq = coq
		}
		sink.Add(c)
	}
	// ---- the constructor route (C07) and derived values (C06) ----
	for i := 0; i < n/10; i++ {
		typ := rng.Pick([]string{"git", "git", "https", "https", "http", "hg", "", "GIT"})
		raw := rng.Pick([]string{"https", "https", "ssh", "http", "git"}) + "://" + rng.Pick([]string{"", "", "", "u@", "user:pw@"}) + rng.Pick(hostPool[:5]) + rng.Pick(pathPool)
		if q := rng.Pick(queryPool); q != "" && rng.Chance(60) {
			raw += "?" + q
		}
		if rng.Chance(40) {
			v, _ := genValidRemote(rng)
			if i := strings.Index(v, "::"); i >= 0 {
				v = v[i+2:]
			}
			if !strings.Contains(v, "://") {
				v = "https://" + v
			}
			pk, _ := splitForMake(v)
			raw = pk
		}
		u, err := url.Parse(raw)
		if err != nil {
			continue
		}
		sub := rng.Pick(subPoolA)
		var rs sourceaddrs.RemoteSource
		var merr error
		var pn interface{}
		func() {
			defer func() {
				if p := recover(); p != nil {
					pn = p
				}
			}()
			rs, merr = sourceaddrs.MakeRemoteSource(typ, u, sub)
		}()
		in := fmt.Sprintf("MakeRemoteSource(%q, %q, %q)", typ, raw, sub)
		ob := describe(in, "make", rs, merr, pn)
		ob.MakeTyp, ob.MakeRaw, ob.MakeSub = typ, raw, sub
		c := Case{Desc: ob, Kind: "make", Key: "make|" + in, Nontrivial: ob.Ok}
		if pn != nil {
			c.Viol = append(c.Viol, viol("C19", in+" panics: "+fmt.Sprint(pn)))
		}
		if ob.Ok {
			c.Kind = "make/ok"
			for _, b := range policy(ob) {
				c.Viol = append(c.Viol, viol("C07", fmt.Sprintf("%s accepted %q: %s", in, ob.Str, b)))
			}
			v2, err2, _ := safeParse("remote", ob.Str)
			if err2 != nil || !sameValue(rs, v2) {
				c.Viol = append(c.Viol, viol("C06", fmt.Sprintf("%s prints %q which does not parse back to the same value (%v)", in, ob.Str, err2), addrSignatures(ob)...))
			}
		}
		if coq := addrCaseCoq(ob); coq != "" && !o.Focus {
			c.Coq = coq
		}
		sink.Add(c)
	}
	// ---- values derived through the API (C06): resolve, select a version, combine with a sub-path ----
	relPool := []string{"./", "../", "./a", "../a", "./a/b", "../..", "./.hidden", "../.shared/vpc", "../../.shared/vpc", "./..x", "./a@b", "./x/a@1.2.3", "./a b", "./a?b", "./a#b", "./a%41", "./ü", "../../..", "./a;b", "./a!b", "./@", "./a@"}
	verPool := []string{"1.0.0", "0.1.2-beta.1", "2.0.0+meta", "1.0.0-a+b", "0.0.0"}
	roundTrip := func(c *Case, what string, v interface{}) {
		var pn interface{}
		var ob addrObs
		func() {
			defer func() {
				if p := recover(); p != nil {
					pn = p
				}
			}()
			ob = describe(what, "derived", v, nil, nil)
		}()
		if pn != nil {
			c.Viol = append(c.Viol, viol("C19", fmt.Sprintf("printing %s panics: %v", what, pn)))
			return
		}
		ra := reparseAPI(ob.Kind)
		if ra == "" {
			return
		}
		v2, err2, pn2 := safeParse(ra, ob.Str)
		sig := addrSignatures(ob)
		if ob.Kind == "registryfinal" && strings.Contains(ob.Sub, "@") {
			sig = append(sig, "at_sign_in_final_registry_sub_path")
		}
		if (ob.Kind == "registryfinal" || ob.Kind == "registry") && strings.Contains(ob.Sub, "?") {
			sig = append(sig, "question_mark_in_registry_sub_path")
		}
		switch {
		case pn2 != nil:
			c.Viol = append(c.Viol, viol("C19", fmt.Sprintf("re-parsing %q (printed from %s) panics: %v", ob.Str, what, pn2)))
		case err2 != nil:
			c.Viol = append(c.Viol, viol("C06", fmt.Sprintf("%s prints %q which does not parse back: %v", what, ob.Str, err2), sig...))
		case !sameValue(v, v2):
			c.Viol = append(c.Viol, viol("C06", fmt.Sprintf("%s prints %q which parses back to a different value (printing %q)", what, ob.Str, describe("", "", v2, nil, nil).Str), sig...))
		default:
			for _, bad := range sameKind(v, ob) {
				c.Viol = append(c.Viol, viol("C06", fmt.Sprintf("%s prints %q: %s", what, ob.Str, bad), sig...))
			}
		}
	}
	var bases []string
	for i := 0; i < n/8; i++ {
		switch rng.Intn(4) {
		case 0:
			s, _ := genValidRemote(rng)
			bases = append(bases, s)
		case 1:
			s, _ := genValidRegistry(rng)
			bases = append(bases, s)
		case 2:
			bases = append(bases, rng.Pick(relPool))
		default:
			s, _ := genValidRegistry(rng)
			parts := strings.SplitN(s, "//", 2)
			s = parts[0] + "@" + rng.Pick(verPool)
			if len(parts) == 2 {
				s += "//" + parts[1]
			}
			bases = append(bases, s)
		}
	}
	for _, base := range bases {
		rel := rng.Pick(relPool)
		lb, lerr := sourceaddrs.ParseLocalSource(rel)
		if lerr != nil {
			continue
		}
		c := Case{Desc: map[string]string{"base": base, "rel": rel}, Kind: "derived", Key: "derived|" + base + "|" + rel}
		func() {
			defer func() {
				if p := recover(); p != nil {
					c.Viol = append(c.Viol, viol("C19", fmt.Sprintf("deriving from %q with %q panics: %v", base, rel, p)))
				}
			}()
			if a, err := sourceaddrs.ParseSource(base); err == nil {
				if r, err := sourceaddrs.ResolveRelativeSource(a, lb); err == nil {
					c.Nontrivial = true
					roundTrip(&c, fmt.Sprintf("ResolveRelativeSource(%q, %q)", base, rel), r)
				}
				if rs, ok := a.(sourceaddrs.RegistrySource); ok {
					ver := versions.MustParseVersion(rng.Pick(verPool))
					f := rs.Versioned(ver)
					roundTrip(&c, fmt.Sprintf("ParseSource(%q).Versioned(%s)", base, ver), f)
					if r, err := sourceaddrs.ResolveRelativeFinalSource(f, lb); err == nil {
						roundTrip(&c, fmt.Sprintf("ResolveRelativeFinalSource(%q@%s, %q)", base, ver, rel), r)
					}
					realS, _ := genValidRemote(rng)
					if real, err := sourceaddrs.ParseRemoteSource(realS); err == nil {
						roundTrip(&c, fmt.Sprintf("ParseSource(%q).FinalSourceAddr(%q)", base, realS), rs.FinalSourceAddr(real))
					}
				}
				if rm, ok := a.(sourceaddrs.RemoteSource); ok {
					sub := genSubOK(rng)
					roundTrip(&c, fmt.Sprintf("ParseSource(%q).Package().SourceAddr(%q)", base, sub), rm.Package().SourceAddr(sub))
				}
			}
			if a, err := sourceaddrs.ParseFinalSource(base); err == nil {
				if r, err := sourceaddrs.ResolveRelativeFinalSource(a, lb); err == nil {
					c.Nontrivial = true
					roundTrip(&c, fmt.Sprintf("ResolveRelativeFinalSource(%q, %q)", base, rel), r)
				}
			}
		}()
		sink.Add(c)
	}
	sink.Close(false)
}

// splitForMake: the package part of a generated valid address (text before the "//sub" marker)
func splitForMake(v string) (string, string) {
	i := strings.Index(v, "://")
	rest := v[i+3:]
	q := ""
	if j := strings.Index(rest, "?"); j >= 0 {
		rest, q = rest[:j], rest[j:]
	}
	if j := strings.Index(rest, "//"); j >= 0 {
		return v[:i+3] + rest[:j] + q, rest[j+2:]
	}
	return v[:i+3] + rest + q, ""
}

func sameValue(a, b interface{}) (eq bool) {
	defer func() {
		if recover() != nil {
			eq = false
		}
	}()
	return a == b
}

// addrSignatures: mechanisms of the known findings about printed remote addresses.
func addrSignatures(o addrObs) []string {
	var sig []string
	if o.Kind == "remote" || o.Kind == "remotepkg" {
		if o.Sub != "" && (&url.URL{Path: o.Sub}).EscapedPath() != o.Sub {
			sig = append(sig, "sub_path_rewritten_by_url_escaping")
		}
		if o.Frag != "" {
			sig = append(sig, "fragment_in_package_url")
		}
		if (&url.URL{Path: o.Path}).EscapedPath() != o.Path || o.RawPath != "" {
			sig = append(sig, "package_path_needs_escaping")
		}
		if o.Host == "" && o.Path == "" {
			sig = append(sig, "opaque_url")
		}
		if o.Sub != "" && strings.HasSuffix(o.Path, "/") {
			sig = append(sig, "package_path_ends_in_slash")
		}
		if o.Api == "make" {
			if _, err := url.ParseQuery(o.Query); err != nil {
				sig = append(sig, "make_accepts_unparsable_query")
			}
		}
	}
	return sig
}

// addrCaseCoq is provided by stream_addr_model.go once the Gallina model exists.
var addrCaseCoq = func(o addrObs) string { return "" }
