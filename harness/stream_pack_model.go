package main

import (
	"fmt"
	"strings"
)

func init() { packCaseCoq = packCaseCoqImpl }

func packCaseCoqImpl(c *PackCase, o *PackObs) string {
	if o.Crashed != "" || o.Timeout || o.Panic != "" || c.FailAt >= 0 && false {
		return ""
	}
	if len(c.History) > 0 {
		return "" // histories are exercised against the implementation only (C16 oracle)
	}
	ok := o.Err == ""
	for _, e := range o.Entries {
		if !isASCII(e.Name) || !isASCII(e.Link) {
			return ""
		}
		if len(e.Body) > 4096 {
			return "" // large bodies go to the oracles only (a 40 kB literal takes the kernel seconds to read)
		}
	}
	var obs string
	switch {
	case ok:
		var es []string
		for _, e := range o.Entries {
			es = append(es, fmt.Sprintf("mkPE %s %d%%N %s %d%%N (%d)%%Z %s", coqStr(e.Name), e.Type[0], coqStr(e.Link), e.Mode&0o777, e.Mtime, coqStr(e.Body)))
		}
		obs = fmt.Sprintf("(OPOk %s %s %d%%N)", coqList(es), coqStrList(o.Files), o.Size)
	case o.Illegal:
		obs = "OPIllegal"
	default:
		obs = "OPErr"
	}
	flags := c.Flags
	if flags == nil {
		flags = []bool{true, false, false}
	}
	ignore := c.Ignore || c.Legacy
	var allow []string
	if !c.Legacy {
		allow = append(allow, c.Allow...) // the package-level Pack() has no allow list
	}
	opts := fmt.Sprintf("(mkOpts %s %s %s)", coqBool(c.Deref), coqBool(ignore), coqStrList(allow))
	flagsOut := o.FlagsOut
	if flagsOut == nil {
		flagsOut = flags
	}
	_ = strings.Join
	return fmt.Sprintf("CPack %s %s %s %s %s %s %s", coqNode(c.Init), opts, coqBools(flags), coqStr(c.Cwd), coqStr(c.Src), obs, coqBools(flagsOut))
}
