package main

// Stream "bundle": runs the real sourcebundle.Builder on scripted worlds,
// emits each (world, ops, observation) as a case for the Gallina model of the
// builder, and evaluates the implementation-side oracles of C08, C12 (builder
// half), C13, C14 and C17.

import (
	"crypto/sha256"
	"encoding/hex"
	"encoding/json"
	"fmt"
	"os"
	"path/filepath"
	"sort"
	"strings"
	"time"

	"github.com/apparentlymart/go-versions/versions"

	"github.com/hashicorp/go-slug/sourceaddrs"
	"github.com/hashicorp/go-slug/sourcebundle"
)

func init() { streams["bundle"] = runBundleStream }

var pkgPool = []string{
	"git::https://example.com/p0.git",
	"git::https://example.com/p1.git?ref=main",
	"https://example.com/p2.tgz",
	"git::ssh://example.org/p3.git",
	"https://example.org/dl/p4.tar.gz",
	"git::https://example.com/p0.git?ref=v2",
	"git::https://example.org/q0.git",
	"https://Example.COM/dl/P5.tgz",
}
var rpkgPool = []string{"example.com/ns/r0/sys", "registry.terraform.io/ns/r1/sys", "example.com/ns/r2/aws"}
var subPool = []string{"", "a", "a/b", "c"}
var relPool = []string{"./", "./a", "./a/b", "./c", "./a", "./c", "../", "../c", "./a/b", "./", "../..", "../../x"}
var verPool = []string{"0.0.0", "1.0.0", "1.1.0", "2.0.0", "2.1.0-beta.1", "0.9.0", "1.1.0-rc.1", "0.0.1", "3.0.0-alpha", "3.0.0-alpha.1"}
var setPool = []string{"", "~> 1.0", ">= 2.0.0", "=1.0.0", "< 1.0.0", ">= 1.0.0, < 2.0.0", "=1.1.0", ">= 3.0.0-alpha"}

// remoteSrcString: the address of a sub-path of one of the pool's canonical packages, written by hand (the
// sub-path goes before the query string); the worlds must not depend on the parser and printer under test
func remoteSrcString(pkg, sub string) string {
	if sub == "" {
		return pkg
	}
	if i := strings.Index(pkg, "?"); i >= 0 {
		return pkg[:i] + "//" + sub + pkg[i:]
	}
	return pkg + "//" + sub
}
func regSrcString(rp, sub string) string {
	if sub == "" {
		return rp
	}
	return rp + "//" + sub
}

func contentKey(c *ContentSpec) string {
	b, _ := json.Marshal(c)
	h := sha256.Sum256(b)
	return hex.EncodeToString(h[:8])
}

type genCfg struct {
	maxPkgs, maxRpkgs, maxDeps, maxOps int
	faulty                             bool
}

func genWorld(rng *Rng, g genCfg) (*World, []OpSpec) {
	w := &World{NFinders: 1 + rng.Intn(2), Sets: setPool}
	np := 1 + rng.Intn(g.maxPkgs)
	nr := rng.Intn(g.maxRpkgs + 1)
	perm := rngPerm(rng, len(pkgPool))
	for i := 0; i < np; i++ {
		w.Pkgs = append(w.Pkgs, PkgSpec{Addr: pkgPool[perm[i]]})
	}
	rperm := rngPerm(rng, len(rpkgPool))
	for i := 0; i < nr; i++ {
		w.Rpkgs = append(w.Rpkgs, RpkgSpec{Addr: rpkgPool[rperm[i]]})
	}
	for i := range w.Rpkgs {
		nv := 1 + rng.Intn(4)
		if rng.Chance(7) {
			nv = 0 // the registry knows the package but offers no version
		}
		vp := rngPerm(rng, len(verPool))
		for j := 0; j < nv; j++ {
			rv := RegVer{V: verPool[vp[j]], Source: remoteSrcString(w.Pkgs[rng.Intn(np)].Addr, rng.Pick(subPool))}
			if rng.Chance(30) {
				d := [2]string{fmt.Sprintf("deprecated-%s", rv.V), "https://example.com/why/" + rv.V}
				rv.Depr = &d
			}
			if g.faulty && rng.Chance(6) {
				rv.SourceErr = true
			}
			w.Rpkgs[i].Versions = append(w.Rpkgs[i].Versions, rv)
		}
		if rng.Chance(12) && nv > 0 && nv < len(verPool) {
			// metadata-only duplicate of an offered version
			base := w.Rpkgs[i].Versions[rng.Intn(nv)]
			if !strings.Contains(base.V, "+") {
				dup := RegVer{V: base.V + "+build" + fmt.Sprint(rng.Intn(9)), Source: base.Source, SourceErr: base.SourceErr}
				w.Rpkgs[i].Versions = append(w.Rpkgs[i].Versions, dup)
			}
		}
		if g.faulty && rng.Chance(6) {
			w.Rpkgs[i].VersionsErr = true
		}
	}
	pickSet := func(rp *RpkgSpec) int {
		if rng.Chance(25) {
			return rng.Intn(len(setPool))
		}
		for tries := 0; tries < 8; tries++ {
			i := rng.Intn(len(setPool))
			set := parseSet(setPool[i])
			for _, v := range rp.Versions {
				if set.Has(versions.MustParseVersion(v.V)) {
					return i
				}
			}
		}
		return 0
	}
	randDep := func() DepSpec {
		f := rng.Intn(w.NFinders)
		switch k := rng.Intn(10); {
		case k < 4:
			return DepSpec{Kind: "remote", Addr: remoteSrcString(w.Pkgs[rng.Intn(np)].Addr, rng.Pick(subPool)), Finder: f}
		case k < 7 && nr > 0:
			rp := &w.Rpkgs[rng.Intn(nr)]
			return DepSpec{Kind: "registry", Addr: regSrcString(rp.Addr, rng.Pick(subPool)), Set: pickSet(rp), Finder: f}
		default:
			return DepSpec{Kind: "local", Rel: rng.Pick(relPool), Finder: f}
		}
	}
	// contents
	nc := np
	if np > 1 && rng.Chance(40) {
		nc = np - 1 // two packages share one content
	}
	for i := 0; i < nc; i++ {
		c := ContentSpec{Modules: map[string]*ModuleSpec{}, Extra: map[string]string{"README": fmt.Sprintf("content %d", rng.Intn(3))}}
		for _, sub := range subPool {
			if sub != "" && rng.Chance(35) {
				continue
			}
			m := &ModuleSpec{Deps: map[int][]DepSpec{}, Diags: map[int][]DiagSpec{}}
			for f := 0; f < w.NFinders; f++ {
				nd := rng.Intn(g.maxDeps + 1)
				for j := 0; j < nd; j++ {
					m.Deps[f] = append(m.Deps[f], randDep())
				}
				if rng.Chance(15) {
					m.Diags[f] = append(m.Diags[f], DiagSpec{Sev: "W", Summary: fmt.Sprintf("warn-%d", rng.Intn(100)),
						File: rng.Pick([]string{"main.tf", "a/main.tf", "../outside.tf", "", "./x.tf", "/abs.tf"})})
				}
				if g.faulty && rng.Chance(6) {
					m.Diags[f] = append(m.Diags[f], DiagSpec{Sev: "E", Summary: "scripted-error", File: "main.tf"})
				}
			}
			c.Modules[sub] = m
		}
		w.Contents = append(w.Contents, c)
	}
	for i := range w.Pkgs {
		if i < nc {
			w.Pkgs[i].Content = i
		} else {
			w.Pkgs[i].Content = rng.Intn(nc)
		}
		if rng.Chance(40) {
			m := [2]string{fmt.Sprintf("%040x", rng.Next()), rng.Pick([]string{"", "fix things", "msg with \"quotes\" & <tags>\nsecond line"})}
			if rng.Chance(20) {
				m[0] = "" // no commit id; with an empty message too the object carries nothing
			}
			w.Pkgs[i].Meta = &m
		}
		if g.faulty && rng.Chance(8) {
			w.Pkgs[i].FetchErr = true
		}
	}
	var ops []OpSpec
	nops := 1 + rng.Intn(g.maxOps)
	for i := 0; i < nops; i++ {
		f := rng.Intn(w.NFinders)
		switch k := rng.Intn(10); {
		case k < 5 || nr == 0:
			ops = append(ops, OpSpec{Kind: "remote", Addr: remoteSrcString(w.Pkgs[rng.Intn(np)].Addr, rng.Pick(subPool)), Finder: f})
		case k < 8:
			rp := &w.Rpkgs[rng.Intn(nr)]
			ops = append(ops, OpSpec{Kind: "registry", Addr: regSrcString(rp.Addr, rng.Pick(subPool)), Set: pickSet(rp), Finder: f})
		default:
			rp := w.Rpkgs[rng.Intn(nr)]
			v := rng.Pick(verPool)
			if len(rp.Versions) > 0 && !rng.Chance(15) {
				v = rp.Versions[rng.Intn(len(rp.Versions))].V
			}
			vv := versions.MustParseVersion(v)
			addr := rp.Addr + "@" + vv.String()
			if sub := rng.Pick(subPool); sub != "" {
				addr += "//" + sub
			}
			ops = append(ops, OpSpec{Kind: "final", Addr: addr, Finder: f})
		}
	}
	if rng.Chance(15) && len(ops) > 0 {
		ops = append(ops, ops[rng.Intn(len(ops))]) // a repeated Add
	}
	ops = append(ops, OpSpec{Kind: "close"})
	if rng.Chance(8) {
		ops = append(ops, ops[0]) // use after close: must be refused
	}
	return w, ops
}

func rngPerm(rng *Rng, n int) []int {
	p := make([]int, n)
	for i := range p {
		p[i] = i
	}
	for i := n - 1; i > 0; i-- {
		j := rng.Intn(i + 1)
		p[i], p[j] = p[j], p[i]
	}
	return p
}

// ---------- Coq emission ----------

func coqN(n int) string { return fmt.Sprintf("%d%%N", n) }

func coqVersion(s string) string {
	v := versions.MustParseVersion(s)
	return fmt.Sprintf("(mkV %d %d %d %s %s)", v.Major, v.Minor, v.Patch, coqStr(string(v.Prerelease)), coqStr(string(v.Metadata)))
}
func coqPair(a, b string) string { return "(" + a + ", " + b + ")" }
func coqOptPair(p *[2]string) string {
	if p == nil {
		return "None"
	}
	return "(Some " + coqPair(coqStr(p[0]), coqStr(p[1])) + ")"
}
func coqRsrc(addr string) string {
	p, s := splitRemote(addr)
	return coqPair(coqStr(p), coqStr(s))
}

type worldEmit struct {
	w        *World
	cids     map[string]int // content key -> id
	setIDs   map[string]int // set spec (incl. "=v" for final ops) -> id
	setSpecs []string
}

func newWorldEmit(w *World, ops []OpSpec) *worldEmit {
	e := &worldEmit{w: w, cids: map[string]int{}, setIDs: map[string]int{}}
	for i, s := range w.Sets {
		e.setIDs[fmt.Sprintf("#%d", i)] = i
		e.setSpecs = append(e.setSpecs, s)
	}
	for _, op := range ops {
		if op.Kind == "final" {
			f, _ := sourceaddrs.ParseFinalRegistrySource(op.Addr)
			k := "=" + f.SelectedVersion().String()
			if _, ok := e.setIDs[k]; !ok {
				e.setIDs[k] = len(e.setSpecs)
				e.setSpecs = append(e.setSpecs, k)
			}
		}
	}
	return e
}
func (e *worldEmit) cid(i int) int {
	k := contentKey(&e.w.Contents[i])
	if id, ok := e.cids[k]; ok {
		return id
	}
	id := len(e.cids)
	e.cids[k] = id
	return id
}

func (e *worldEmit) depCoq(d DepSpec) string {
	switch d.Kind {
	case "remote":
		return fmt.Sprintf("DRemote %s %s", coqRsrc(d.Addr), coqN(d.Finder))
	case "registry":
		s, _ := sourceaddrs.ParseRegistrySource(d.Addr)
		return fmt.Sprintf("DRegistry %s %s %s %s", coqStr(s.Package().String()), coqStr(s.SubPath()), coqN(d.Set), coqN(d.Finder))
	default:
		return fmt.Sprintf("DLocal %s %s", coqStr(d.Rel), coqN(d.Finder))
	}
}
func diagCoq(sev, summary string, file *string) string {
	s := "SevWarning"
	if sev == "E" {
		s = "SevError"
	}
	f := "None"
	if file != nil {
		f = "(Some " + coqStr(*file) + ")"
	}
	return fmt.Sprintf("mkDiag %s %s %s", s, coqStr(summary), f)
}

func (e *worldEmit) worldCoq() string {
	w := e.w
	var pk, rp, dp, al []string
	for _, p := range w.Pkgs {
		f := "None"
		if !p.FetchErr {
			meta := p.Meta
			if meta != nil && meta[0] == "" && meta[1] == "" {
				meta = nil // a metadata object that carries nothing is not recorded in the manifest: same as none for the finished bundle
			}
			f = fmt.Sprintf("(Some (%s, %s))", coqN(e.cid(p.Content)), coqOptPair(meta))
		}
		pk = append(pk, coqPair(coqStr(p.Addr), f))
	}
	allVersions := map[string]bool{}
	for _, r := range w.Rpkgs {
		vs := "None"
		var vl, sl []string
		for _, v := range r.Versions {
			allVersions[v.V] = true
			vl = append(vl, coqPair(coqVersion(v.V), coqOptPair(v.Depr)))
			src := "None"
			if !v.SourceErr {
				src = "(Some " + coqRsrc(v.Source) + ")"
			}
			sl = append(sl, coqPair(coqVersion(v.V), src))
		}
		if !r.VersionsErr {
			vs = "(Some " + coqList(vl) + ")"
		}
		rp = append(rp, fmt.Sprintf("(%s, %s, %s)", coqStr(r.Addr), vs, coqList(sl)))
	}
	seenC := map[int]bool{}
	for ci := range w.Contents {
		id := e.cid(ci)
		if seenC[id] {
			continue
		}
		seenC[id] = true
		subs := make([]string, 0)
		for s := range w.Contents[ci].Modules {
			subs = append(subs, s)
		}
		sort.Strings(subs)
		for _, sub := range subs {
			m := w.Contents[ci].Modules[sub]
			for f := 0; f < w.NFinders; f++ {
				var ds, gs []string
				for _, d := range m.Deps[f] {
					ds = append(ds, e.depCoq(d))
				}
				for _, g := range m.Diags[f] {
					file := g.File
					gs = append(gs, diagCoq(g.Sev, g.Summary, &file))
				}
				if len(ds)+len(gs) > 0 {
					dp = append(dp, fmt.Sprintf("(%s, %s, %s, %s, %s)", coqN(id), coqStr(sub), coqN(f), coqList(ds), coqList(gs)))
				}
			}
		}
	}
	vkeys := make([]string, 0)
	for v := range allVersions {
		vkeys = append(vkeys, v)
	}
	sort.Strings(vkeys)
	for i, spec := range e.setSpecs {
		set := parseSet(spec)
		var in []string
		for _, v := range vkeys {
			if set.Has(versions.MustParseVersion(v)) {
				in = append(in, coqVersion(v))
			}
		}
		al = append(al, coqPair(coqN(i), coqList(in)))
	}
	return fmt.Sprintf("(mkWT %s %s %s %s)", coqList(pk), coqList(rp), coqList(dp), coqList(al))
}

func (e *worldEmit) opsCoq(ops []OpSpec) string {
	var out []string
	for _, op := range ops {
		switch op.Kind {
		case "remote":
			out = append(out, fmt.Sprintf("AddRemote %s %s", coqRsrc(op.Addr), coqN(op.Finder)))
		case "registry":
			s, _ := sourceaddrs.ParseRegistrySource(op.Addr)
			out = append(out, fmt.Sprintf("AddRegistry %s %s %s %s", coqStr(s.Package().String()), coqStr(s.SubPath()), coqN(op.Set), coqN(op.Finder)))
		case "final":
			f, _ := sourceaddrs.ParseFinalRegistrySource(op.Addr)
			sid := e.setIDs["="+f.SelectedVersion().String()]
			out = append(out, fmt.Sprintf("AddRegistry %s %s %s %s", coqStr(f.Package().String()), coqStr(f.SubPath()), coqN(sid), coqN(op.Finder)))
		case "close":
			out = append(out, "Close")
		}
	}
	return coqList(out)
}

func obsCoq(o *BuildObs) string {
	var outs, calls, evs []string
	for _, oc := range o.Outcomes {
		switch oc.Kind {
		case "diags":
			var ds []string
			for _, d := range oc.Diags {
				ds = append(ds, diagCoq(d.Sev, d.Summary, d.File))
			}
			outs = append(outs, "OutDiags "+coqList(ds))
		case "refused":
			outs = append(outs, "OutRefused")
		case "closed":
			outs = append(outs, "OutClosed")
		default:
			outs = append(outs, "OutOther")
		}
	}
	for _, c := range o.Calls {
		switch c.Kind {
		case "fetch":
			calls = append(calls, "CFetch "+coqStr(c.A))
		case "versions":
			calls = append(calls, "CVersions "+coqStr(c.A))
		case "source":
			calls = append(calls, fmt.Sprintf("CSource %s %s", coqStr(c.A), coqVersion(c.B)))
		case "analyze":
			calls = append(calls, fmt.Sprintf("CAnalyze (%s, %s, %s)", coqStr(c.A), coqStr(c.B), coqN(c.F)))
		}
	}
	evName := map[string]string{"versions-start": "EVersionsStart", "versions-success": "EVersionsSuccess", "versions-failure": "EVersionsFailure",
		"versions-already": "EVersionsAlready", "source-start": "ESourceStart", "source-success": "ESourceSuccess", "source-failure": "ESourceFailure",
		"source-already": "ESourceAlready", "download-start": "EDownloadStart", "download-success": "EDownloadSuccess",
		"download-failure": "EDownloadFailure", "download-already": "EDownloadAlready"}
	for _, e := range o.Events {
		switch {
		case e.Kind == "diagnostics":
			evs = append(evs, fmt.Sprintf("EDiagnostics %d", e.N))
		case strings.HasPrefix(e.Kind, "source-"):
			evs = append(evs, fmt.Sprintf("%s %s %s", evName[e.Kind], coqStr(e.A), coqVersion(e.B)))
		default:
			evs = append(evs, fmt.Sprintf("%s %s", evName[e.Kind], coqStr(e.A)))
		}
	}
	bundle := "None"
	if o.Bundle != nil {
		b := o.Bundle
		dirNames := map[string]int{}
		var dl, ml, rl, pl []string
		for _, p := range b.Pkgs {
			d := b.Dirs[p]
			if _, ok := dirNames[d]; !ok {
				dirNames[d] = len(dirNames)
			}
			dl = append(dl, coqPair(coqStr(p), coqN(dirNames[d])))
			if m, ok := b.Metas[p]; ok {
				ml = append(ml, coqPair(coqStr(p), coqPair(coqStr(m[0]), coqStr(m[1]))))
			}
		}
		for _, rp := range b.Rpkgs {
			for _, v := range b.Versions[rp] {
				k := rp + "@" + v
				rl = append(rl, coqPair(coqPair(coqStr(rp), coqVersion(v)), coqRsrc(b.Sources[k])))
				d := "None"
				if dp, ok := b.Deprs[k]; ok {
					d = "(Some " + coqPair(coqStr(dp[1]), coqStr(dp[2])) + ")"
				}
				pl = append(pl, coqPair(coqPair(coqStr(rp), coqVersion(v)), d))
			}
		}
		bundle = fmt.Sprintf("(Some (mkOB %s %s %s %s))", coqList(dl), coqList(ml), coqList(rl), coqList(pl))
	}
	return fmt.Sprintf("(mkObs %s %s %s %s)", coqList(outs), bundle, coqList(calls), coqList(evs))
}

// ---------- oracles ----------

func noErrors(o *BuildObs) bool {
	if o.Timeout {
		return false
	}
	for _, oc := range o.Outcomes {
		if oc.Kind == "diags" && oc.NErrors > 0 || oc.Kind == "close-error" || oc.Kind == "timeout" {
			return false
		}
	}
	return true
}

func viol(prop, what string, sigs ...string) Violation {
	return Violation{Property: prop, What: what, Signatures: sigs}
}

// oracleTrace: every start is followed by exactly one matching success/failure
// before the next start of that kind; "already" only after a success for the same subject.
func oracleTrace(evs []EvRec) []Violation {
	var vs []Violation
	open := map[string]string{} // kind -> subject
	succeeded := map[string]bool{}
	for _, e := range evs {
		if e.Kind == "diagnostics" {
			continue
		}
		i := strings.LastIndex(e.Kind, "-")
		kind, what := e.Kind[:i], e.Kind[i+1:]
		subj := e.A + "@" + e.B
		switch what {
		case "start":
			if s, ok := open[kind]; ok {
				vs = append(vs, viol("C14", fmt.Sprintf("trace: %s start for %s while %s is still open", kind, subj, s)))
			}
			open[kind] = subj
		case "success", "failure":
			if s, ok := open[kind]; !ok || s != subj {
				vs = append(vs, viol("C14", fmt.Sprintf("trace: %s %s for %s without matching start", kind, what, subj)))
			}
			delete(open, kind)
			if what == "success" {
				succeeded[kind+"|"+subj] = true
			}
		case "already":
			if !succeeded[kind+"|"+subj] {
				vs = append(vs, viol("C14", fmt.Sprintf("trace: %s already for %s before any success", kind, subj)))
			}
		}
	}
	for k, s := range open {
		vs = append(vs, viol("C14", fmt.Sprintf("trace: %s start for %s never completed", k, s)))
	}
	return vs
}

func oracleBuild(w *World, ops []OpSpec, bb *builtBundle) []Violation {
	var vs []Violation
	o := &bb.obs
	if o.Timeout {
		vs = append(vs, viol("C14", "build did not terminate within the watchdog limit"), viol("C19", "build did not terminate within the watchdog limit"))
		return vs
	}
	ref := w.reference(ops)
	clean := noErrors(o)
	// --- C12: an error anywhere poisons the builder; no bundle out of a failed build ---
	sawErr := false
	for i, oc := range o.Outcomes {
		if sawErr && oc.Kind != "refused" {
			vs = append(vs, viol("C12", fmt.Sprintf("operation %d (%s) after an error diagnostic was not refused", i, ops[i].Kind)))
		}
		if oc.Kind == "diags" && oc.NErrors > 0 {
			sawErr = true
		}
	}
	if ref.NoneAllowed && clean {
		vs = append(vs, viol("C17", "a registry request has no offered version inside its allowed set, yet the build reported no error"))
	}
	if ref.Failed && clean && o.Bundle != nil {
		// the reference says some step must fail (missing package, escaping relative path, no matching version, scripted failure)
		vs = append(vs, viol("C12", "a build in which a step fails returned no error diagnostic and produced a bundle"))
	}
	if !ref.Failed && !clean {
		if ref.ZeroSel {
			vs = append(vs, viol("C17", "an offered and allowed version 0.0.0 (or 0.0.0 pre-release) is the newest allowed one, but the build reports that no version matches", "zero_version_never_selected"))
		} else {
			vs = append(vs, viol("C08", "fault-free world: the build reported an error"))
			for _, oc := range o.Outcomes {
				for _, d := range oc.Diags {
					if d.Sev == "E" && d.Summary == "Cannot resolve module registry package" {
						vs = append(vs, viol("C17", "every registry request of this world has an offered allowed version, yet the build reports that a registry package cannot be resolved"))
					}
				}
			}
		}
	}
	vs = append(vs, oracleTrace(o.Events)...)
	vs = append(vs, oracleDiags(w, bb)...)
	if !clean || ref.Failed || o.Bundle == nil || bb.bundle == nil {
		return vs
	}
	b := bb.bundle
	// --- C14: each piece of work exactly once ---
	fetches, versionsC, sources, analyses := map[string]int{}, map[string]int{}, map[string]int{}, map[refItem]int{}
	sourcesExact := map[string]int{}
	for _, c := range o.Calls {
		switch c.Kind {
		case "fetch":
			fetches[c.A]++
		case "versions":
			versionsC[c.A]++
		case "source":
			sources[c.A+"@"+cmpV(c.B)]++
			sourcesExact[c.A+"@"+c.B]++
		case "analyze":
			analyses[refItem{c.A, c.B, c.F}]++
		}
	}
	for p := range ref.Pkgs {
		if fetches[p] != 1 {
			vs = append(vs, viol("C14", fmt.Sprintf("package %s fetched %d times", p, fetches[p])))
		}
	}
	for p, n := range fetches {
		if !ref.Pkgs[p] {
			vs = append(vs, viol("C14", fmt.Sprintf("package %s outside the closure fetched %d times", p, n)))
		}
	}
	for it := range ref.Items {
		if analyses[it] != 1 {
			vs = append(vs, viol("C14", fmt.Sprintf("(%s//%s, finder %d) analysed %d times", it.Pkg, it.Sub, it.Finder, analyses[it])))
		}
	}
	for it, n := range analyses {
		if !ref.Items[it] {
			vs = append(vs, viol("C14", fmt.Sprintf("(%s//%s, finder %d) outside the closure analysed %d times", it.Pkg, it.Sub, it.Finder, n)))
		}
	}
	regTouched := map[string]bool{}
	for k := range ref.RegSel {
		regTouched[strings.SplitN(k, "|", 2)[0]] = true
	}
	for rp := range regTouched {
		if versionsC[rp] != 1 {
			vs = append(vs, viol("C14", fmt.Sprintf("version list of %s requested %d times", rp, versionsC[rp])))
		}
	}
	// versions that differ only in build metadata are different versions to the registry client
	// (an exact request names one of them): each is looked up at most once, and at least one of them
	for k, n := range sourcesExact {
		if n != 1 {
			vs = append(vs, viol("C14", fmt.Sprintf("source address of %s requested %d times", k, n)))
		}
	}
	for k := range ref.Resolved {
		if sources[k] < 1 {
			vs = append(vs, viol("C14", fmt.Sprintf("source address of %s requested %d times", k, sources[k])))
		}
	}
	for k, n := range sources {
		if _, ok := ref.Resolved[k]; !ok {
			vs = append(vs, viol("C14", fmt.Sprintf("source address of %s (not selected by any request) requested %d times", k, n)))
		}
	}
	// --- C08: every remote source value that was handed to the builder can be looked up, as the very value it was ---
	for _, s := range bb.runner.given {
		if _, err := b.LocalPathForRemoteSource(s); err != nil {
			vs = append(vs, viol("C08", fmt.Sprintf("source %s was added or reported as a dependency, the build reported no error, but the bundle does not know it: %v", s, err)))
		}
	}
	// --- C08: everything added or discovered can be looked up ---
	for it := range ref.Items {
		pa, _ := sourceaddrs.ParseRemotePackage(it.Pkg)
		lp, err := b.LocalPathForRemoteSource(pa.SourceAddr(it.Sub))
		if err != nil {
			vs = append(vs, viol("C08", fmt.Sprintf("closure member %s//%s not in bundle: %v", it.Pkg, it.Sub, err)))
			continue
		}
		rel, err := filepath.Rel(o.Bundle.Root, lp)
		if err != nil || strings.HasPrefix(rel, "..") || filepath.IsAbs(rel) {
			vs = append(vs, viol("C08", fmt.Sprintf("local path %s for %s//%s is outside the bundle", lp, it.Pkg, it.Sub)))
			continue
		}
		ps := w.pkgSpec(it.Pkg)
		c := &w.Contents[ps.Content]
		m, isMod := c.Modules[it.Sub]
		has := isMod || it.Sub == ""
		for k := range c.Modules {
			if strings.HasPrefix(k, it.Sub+"/") {
				has = true
			}
		}
		_, statErr := os.Stat(lp)
		if has != (statErr == nil) {
			vs = append(vs, viol("C08", fmt.Sprintf("%s//%s: fetched package has sub-path=%v but bundle path exists=%v", it.Pkg, it.Sub, has, statErr == nil)))
		}
		if isMod && statErr == nil {
			got, _ := os.ReadFile(filepath.Join(lp, "deps.json"))
			want, _ := json.Marshal(m)
			if string(got) != string(want) {
				vs = append(vs, viol("C08", fmt.Sprintf("%s//%s: content at bundle path differs from fetched content", it.Pkg, it.Sub)))
			}
		}
	}
	for _, p := range w.Pkgs {
		if !ref.Pkgs[p.Addr] {
			continue
		}
		pa, _ := sourceaddrs.ParseRemotePackage(p.Addr)
		m := b.RemotePackageMeta(pa)
		switch {
		case p.Meta == nil && m != nil:
			vs = append(vs, viol("C08", "metadata appeared for "+p.Addr))
		case p.Meta != nil && p.Meta[0] == "" && p.Meta[1] == "" && m == nil:
			// a metadata object that carries nothing: nothing to retrieve
		case p.Meta != nil && (m == nil || m.GitCommitID() != p.Meta[0] || m.GitCommitMessage() != p.Meta[1]):
			sig := []string{}
			if p.Meta[0] == "" {
				sig = append(sig, "meta_empty_commit_id")
			}
			vs = append(vs, viol("C08", "fetcher metadata of "+p.Addr+" not retrievable unchanged", sig...))
		}
	}
	// registry sources resolve to the location of the registry-named address joined with the caller's sub-path
	for _, op := range ops {
		if op.Kind != "registry" && op.Kind != "final" {
			continue
		}
		var rs sourceaddrs.RegistrySource
		var setKey string
		if op.Kind == "registry" {
			rs, _ = sourceaddrs.ParseRegistrySource(op.Addr)
			setKey = fmt.Sprint(op.Set)
		} else {
			f, _ := sourceaddrs.ParseFinalRegistrySource(op.Addr)
			rs = f.Unversioned()
			setKey = "=" + f.SelectedVersion().String()
		}
		best := ref.RegSel[rs.Package().String()+"|"+setKey]
		if best == "" {
			continue
		}
		bv := versions.MustParseVersion(best)
		for _, v := range o.Bundle.Versions[rs.Package().String()] {
			if cmpV(v) == best {
				bv = versions.MustParseVersion(v)
			}
		}
		real := ref.Resolved[rs.Package().String()+"@"+best]
		rp, rsub := splitRemote(real)
		want := strings.Trim(rsub+"/"+rs.SubPath(), "/")
		pa, _ := sourceaddrs.ParseRemotePackage(rp)
		wantPath, err1 := b.LocalPathForRemoteSource(pa.SourceAddr(want))
		gotPath, err2 := b.LocalPathForRegistrySource(rs, bv)
		if err1 != nil || err2 != nil || wantPath != gotPath {
			vs = append(vs, viol("C08", fmt.Sprintf("registry source %s@%s resolves to %q (%v), expected the location of %s//%s = %q (%v)", op.Addr, best, gotPath, err2, rp, want, wantPath, err1)))
		}
		gotPath2, err3 := b.LocalPathForSource(rs.Versioned(bv))
		if err3 != nil || gotPath2 != gotPath {
			vs = append(vs, viol("C08", "LocalPathForSource(final registry source) disagrees with LocalPathForRegistrySource"))
		}
	}
	// --- C17: newest allowed version, right deprecation ---
	for k, best := range ref.RegSel {
		parts := strings.SplitN(k, "|", 2)
		rp := parts[0]
		if best == "" {
			continue
		}
		found := false
		for _, v := range o.Bundle.Versions[rp] {
			if cmpV(v) == best {
				found = true
			}
		}
		if !found {
			vs = append(vs, viol("C17", fmt.Sprintf("%s with set %s: newest allowed offered version %s not selected (bundle has %v)", rp, parts[1], best, o.Bundle.Versions[rp])))
		}
	}
	for rp, vsl := range o.Bundle.Versions {
		spec := w.rpkgSpec(rp)
		for _, v := range vsl {
			selected := false
			for k, best := range ref.RegSel {
				if strings.HasPrefix(k, rp+"|") && best == cmpV(v) {
					selected = true
				}
			}
			if !selected {
				vs = append(vs, viol("C17", fmt.Sprintf("bundle records %s@%s which no request selects", rp, v)))
				continue
			}
			kk := rp + "@" + v
			var exact *RegVer
			dup := false
			for i := range spec.Versions {
				sv := versions.MustParseVersion(spec.Versions[i].V)
				if sv == versions.MustParseVersion(v) {
					if exact == nil {
						exact = &spec.Versions[i]
					}
				} else if sv.Same(versions.MustParseVersion(v)) {
					dup = true
				}
			}
			if exact == nil {
				vs = append(vs, viol("C17", fmt.Sprintf("bundle records %s which the registry does not offer", kk)))
				continue
			}
			sig := []string{}
			if dup {
				sig = append(sig, "metadata_only_duplicate_version")
			}
			got, has := o.Bundle.Deprs[kk]
			if (exact.Depr != nil) != has || (has && (got[1] != exact.Depr[0] || got[2] != exact.Depr[1])) {
				vs = append(vs, viol("C17", fmt.Sprintf("deprecation recorded for %s is %v, registry attached %v", kk, got, exact.Depr), sig...))
			}
			if has && got[0] != versions.MustParseVersion(v).String() {
				vs = append(vs, viol("C17", fmt.Sprintf("deprecation recorded for %s names version %s", kk, got[0])))
			}
			if src := o.Bundle.Sources[kk]; src != exact.Source {
				vs = append(vs, viol("C17", fmt.Sprintf("source address recorded for %s is %q, registry named %q", kk, src, exact.Source), sig...))
			}
		}
	}
	// --- C13: coalescing iff equal content ---
	for i, p := range w.Pkgs {
		for j, q := range w.Pkgs {
			if i >= j || !ref.Pkgs[p.Addr] || !ref.Pkgs[q.Addr] {
				continue
			}
			same := contentKey(&w.Contents[p.Content]) == contentKey(&w.Contents[q.Content])
			shared := o.Bundle.Dirs[p.Addr] == o.Bundle.Dirs[q.Addr]
			if same != shared {
				vs = append(vs, viol("C13", fmt.Sprintf("packages %s and %s: equal content=%v but share directory=%v", p.Addr, q.Addr, same, shared)))
			}
		}
	}
	return vs
}

func strp(p *string) string {
	if p == nil {
		return "<nil>"
	}
	return *p
}

// oracleDiags (C12): finder diagnostics reach the caller and the tracer with
// severity and text intact, package-relative file names rewritten as source
// addresses inside the analysed package, everything else unchanged.
func oracleDiags(w *World, bb *builtBundle) []Violation {
	var vs []Violation
	render := func(sev, summary, file string) string { return sev + "|" + summary + "|" + file }
	expected := map[string]int{}
	for _, c := range bb.obs.Calls {
		if c.Kind != "analyze" || c.Faulted {
			continue
		}
		ps := w.pkgSpec(c.A)
		if ps == nil {
			continue
		}
		m := w.Contents[ps.Content].Modules[c.B]
		if m == nil {
			continue
		}
		for _, d := range m.Diags[c.F] {
			file := d.File
			if subOK(file) {
				// independent rendering: "//sub" goes before the query string
				pk := c.A
				q := ""
				if i := strings.Index(pk, "?"); i >= 0 {
					pk, q = pk[:i], pk[i:]
				}
				if file != "" {
					file = pk + "//" + file + q
				} else {
					file = c.A
				}
			}
			expected[render(d.Sev, d.Summary, file)]++
		}
	}
	got, traced := map[string]int{}, map[string]int{}
	for _, oc := range bb.obs.Outcomes {
		for _, d := range oc.Diags {
			if !d.Extra {
				continue
			}
			got[render(d.Sev, d.Summary, strp(d.File))]++
			if d.File != nil && (strp(d.Ctx) != strp(d.File) || d.Line != 1) {
				vs = append(vs, viol("C12", fmt.Sprintf("diagnostic %q: context file %q / line %d not forwarded like the subject %q", d.Summary, strp(d.Ctx), d.Line, strp(d.File))))
			}
		}
	}
	for _, d := range bb.traced {
		traced[render(d.Sev, d.Summary, strp(d.File))]++
	}
	if bb.obs.FaultHit > 0 {
		delete(got, render("E", "scripted finder failure", "<nil>"))
		delete(traced, render("E", "scripted finder failure", "<nil>"))
	}
	for k, n := range expected {
		if got[k] != n {
			vs = append(vs, viol("C12", fmt.Sprintf("finder diagnostic %q returned to the caller %d times, expected %d", k, got[k], n)))
		}
		if traced[k] != n {
			vs = append(vs, viol("C12", fmt.Sprintf("finder diagnostic %q sent to the tracer %d times, expected %d", k, traced[k], n)))
		}
	}
	for k, n := range got {
		if expected[k] == 0 {
			vs = append(vs, viol("C12", fmt.Sprintf("caller received diagnostic %q x%d that no finder raised in that form", k, n)))
		}
	}
	return vs
}

// oracleFaults (C12, builder half): every single failure position of a build.
func oracleFaults(w *World, ops []OpSpec, base *builtBundle, workDir string, pairs bool, rng *Rng) (vs []Violation, runs int) {
	if !noErrors(&base.obs) || base.obs.Bundle == nil {
		return nil, 0
	}
	counts := map[string]int{}
	for _, c := range base.obs.Calls {
		k := c.Kind
		if k == "analyze" {
			k = "finder"
		}
		counts[k]++
	}
	var faults [][]Fault
	for _, k := range []string{"fetch", "versions", "source", "finder"} {
		for n := 0; n < counts[k]; n++ {
			faults = append(faults, []Fault{{k, n}})
		}
	}
	if counts["fetch"] > 0 {
		// the target directory vanishes just before the first / the last download
		faults = append(faults, []Fault{{"tmpdir", 0}})
		if counts["fetch"] > 1 {
			faults = append(faults, []Fault{{"tmpdir", counts["fetch"] - 1}})
		}
	}
	if pairs {
		single := len(faults)
		for i := 0; i < single && i < 12; i++ {
			j := rng.Intn(single)
			if j != i {
				faults = append(faults, []Fault{faults[i][0], faults[j][0]})
			}
		}
	}
	for i, fl := range faults {
		d := filepath.Join(workDir, fmt.Sprintf("fault%d", i))
		os.MkdirAll(d, 0o755)
		var bviol []Violation
		boundary := func(where string) {
			if _, err := os.Stat(filepath.Join(d, "terraform-sources.json")); err == nil {
				bviol = append(bviol, viol("C12", "manifest present in a target directory still under construction (at "+where+")"))
			}
			if _, err := sourcebundle.OpenDir(d); err == nil {
				bviol = append(bviol, viol("C12", "target directory under construction opens as a bundle (at "+where+")"))
			}
		}
		bb := runBuild(w, ops, d, fl, boundary, 20*time.Second)
		runs++
		vs = append(vs, bviol...)
		if bb.obs.Timeout {
			vs = append(vs, viol("C14", "faulted build did not terminate"))
			os.RemoveAll(d)
			return
		}
		if bb.obs.FaultHit > 0 {
			vs = append(vs, oracleTrace(bb.obs.Events)...)
			sawErr := false
			for j, oc := range bb.obs.Outcomes {
				if sawErr && oc.Kind != "refused" {
					vs = append(vs, viol("C12", fmt.Sprintf("fault %v: operation %d after the failing call was not refused (%s)", fl, j, oc.Kind)))
				}
				if oc.Kind == "diags" && oc.NErrors > 0 {
					sawErr = true
				}
			}
			if !sawErr {
				vs = append(vs, viol("C12", fmt.Sprintf("fault %v was injected but no Add call returned an error diagnostic", fl)))
			}
			if bb.obs.Bundle != nil {
				vs = append(vs, viol("C12", fmt.Sprintf("fault %v: a bundle came out of the failed build", fl)))
			}
			if _, err := sourcebundle.OpenDir(d); err == nil {
				vs = append(vs, viol("C12", fmt.Sprintf("fault %v: the target directory of the failed build opens as a bundle", fl)))
			}
			vs = append(vs, oracleDiags(w, bb)...)
		}
		os.RemoveAll(d)
	}
	return
}

// permutations of the Add calls (close stays last)
func permuteOps(ops []OpSpec, limit int, rng *Rng) [][]OpSpec {
	var adds, tail []OpSpec
	for i, op := range ops {
		if op.Kind == "close" {
			tail = ops[i:]
			break
		}
		adds = append(adds, op)
	}
	var out [][]OpSpec
	var rec func(cur []OpSpec, rest []OpSpec)
	rec = func(cur, rest []OpSpec) {
		if len(rest) == 0 {
			out = append(out, append(append([]OpSpec{}, cur...), tail...))
			return
		}
		for i := range rest {
			nr := append(append([]OpSpec{}, rest[:i]...), rest[i+1:]...)
			rec(append(cur, rest[i]), nr)
		}
	}
	if len(adds) <= 4 {
		rec(nil, adds)
	} else {
		for k := 0; k < 24; k++ {
			p := rngPerm(rng, len(adds))
			var cur []OpSpec
			for _, i := range p {
				cur = append(cur, adds[i])
			}
			out = append(out, append(cur, tail...))
		}
	}
	if limit > 0 && len(out) > limit {
		rng2 := rng.Fork()
		p := rngPerm(rng2, len(out))
		var sel [][]OpSpec
		for _, i := range p[:limit] {
			sel = append(sel, out[i])
		}
		out = sel
	}
	return out
}

// oracleLeftovers (C10): a finished bundle directory holds the manifest and the package
// directories the bundle reports, nothing else - in particular no temporary directory.
func oracleLeftovers(bb *builtBundle) (vs []Violation) {
	if bb.obs.Bundle == nil {
		return nil
	}
	known := map[string]bool{"terraform-sources.json": true}
	for _, d := range bb.obs.Bundle.Dirs {
		known[strings.SplitN(d, "/", 2)[0]] = true
	}
	seen := map[string]bool{}
	for _, l := range bb.obs.Listing {
		f := strings.SplitN(l, " ", 2)
		if len(f) != 2 {
			continue
		}
		top := strings.SplitN(f[1], "/", 2)[0]
		if !known[top] && !seen[top] {
			seen[top] = true
			what := "an entry no package of the bundle lives in"
			if strings.HasPrefix(top, ".tmp-") {
				what = "a temporary directory"
			}
			vs = append(vs, viol("C10", fmt.Sprintf("the finished bundle directory contains %q: %s", top, what)))
		}
	}
	return vs
}

func oracleOrder(w *World, ops []OpSpec, base *builtBundle, workDir string, limit int, rng *Rng) (vs []Violation, runs int) {
	if !noErrors(&base.obs) || base.obs.Bundle == nil {
		return nil, 0
	}
	for i, perm := range permuteOps(ops, limit, rng) {
		d := filepath.Join(workDir, fmt.Sprintf("perm%d", i))
		os.MkdirAll(d, 0o755)
		bb := runBuild(w, perm, d, nil, nil, 20*time.Second)
		runs++
		if bb.obs.Timeout {
			vs = append(vs, viol("C14", "permuted build did not terminate"))
			os.RemoveAll(d)
			return
		}
		if bb.obs.Manifest != base.obs.Manifest || (bb.obs.Bundle != nil && bb.obs.Bundle.Checksum != base.obs.Bundle.Checksum) ||
			strings.Join(bb.obs.Listing, "\n") != strings.Join(base.obs.Listing, "\n") {
			vs = append(vs, viol("C13", fmt.Sprintf("Add order %v gives a different manifest / checksum / directory listing than order %v", opNames(perm), opNames(ops))))
		}
		os.RemoveAll(d)
	}
	return
}

func opNames(ops []OpSpec) []string {
	var out []string
	for _, o := range ops {
		out = append(out, o.Kind+":"+o.Addr)
	}
	return out
}

type bundleDesc struct {
	World *World    `json:"world"`
	Ops   []OpSpec  `json:"ops"`
	Obs   *BuildObs `json:"obs,omitempty"`
}

// corpusBundle: witnesses of known findings and minimised past failures; run first.
func corpusBundle() []struct {
	W   *World
	Ops []OpSpec
} {
	mk := func(meta *[2]string, vers []RegVer) (*World, []OpSpec) {
		w := &World{NFinders: 1, Sets: setPool,
			Contents: []ContentSpec{{Modules: map[string]*ModuleSpec{"": {}}, Extra: map[string]string{"README": "corpus"}}},
			Pkgs:     []PkgSpec{{Addr: pkgPool[0], Content: 0, Meta: meta}},
			Rpkgs:    []RpkgSpec{{Addr: rpkgPool[0], Versions: vers}}}
		return w, []OpSpec{{Kind: "registry", Addr: rpkgPool[0], Set: 0, Finder: 0}, {Kind: "close"}}
	}
	var out []struct {
		W   *World
		Ops []OpSpec
	}
	add := func(w *World, ops []OpSpec) {
		out = append(out, struct {
			W   *World
			Ops []OpSpec
		}{w, ops})
	}
	// KF-C17-1: 0.0.0 is the only (hence newest) allowed offered version
	add(mk(nil, []RegVer{{V: "0.0.0", Source: pkgPool[0]}}))
	add(mk(nil, []RegVer{{V: "0.0.0-rc.1", Source: pkgPool[0]}, {V: "0.0.0", Source: pkgPool[0]}}))
	// KF-C17-2: two listed versions that differ only in build metadata, with different deprecation notes
	d := [2]string{"old build", "https://example.com/why"}
	add(mk(nil, []RegVer{{V: "1.0.0", Depr: &d, Source: pkgPool[0]}, {V: "1.0.0+build1", Source: pkgPool[0]}}))
	// KF-C08-1: fetcher metadata with an empty commit id but a message
	m := [2]string{"", "message without id"}
	add(mk(&m, []RegVer{{V: "1.0.0", Source: pkgPool[0]}}))
	return out
}

func runBundleStream(o *Opts) {
	rng := NewRng(o.Seed)
	sink := NewSink(o.Out, "bundle", "Corr.RunBundle",
		"cases: random scripted worlds (1-4 remote packages over 6 addresses incl. query strings, shared contents, 0-2 registry packages with 1-5 versions incl. pre-releases and metadata-only duplicates, 1-2 finders, remote/registry/relative dependencies incl. self references, cycles and escaping relative paths, warnings with file names, 8 allowed-version sets) x 1-5 Add calls (+ repeated Adds, use after Close); ~15% of worlds have scripted failures; each fault-free world is rebuilt under permutations of its Add calls; non-trivial = at least one dependency discovered or registry hop; distinct by hash of (world, ops)",
		60)
	n := 500 * o.Scale
	if o.Tier == "thorough" {
		n = 6000 * o.Scale
	}
	if o.Focus {
		n = 4000 * o.Scale
	}
	work, _ := os.MkdirTemp("", "verif-bundle-")
	defer os.RemoveAll(work)
	permRuns, faultRuns := 0, 0
	corpus := corpusBundle()
	for i := 0; i < n+len(corpus); i++ {
		g := genCfg{maxPkgs: 4, maxRpkgs: 2, maxDeps: 2, maxOps: 4, faulty: rng.Chance(15)}
		if i%5 == 0 {
			g = genCfg{maxPkgs: 2, maxRpkgs: 1, maxDeps: 3, maxOps: 3, faulty: false}
		}
		var w *World
		var ops []OpSpec
		if i < len(corpus) {
			w, ops = corpus[i].W, corpus[i].Ops
		} else {
			w, ops = genWorld(rng.Fork(), g)
		}
		d := filepath.Join(work, fmt.Sprintf("w%d", i))
		os.MkdirAll(d, 0o755)
		bb := runBuild(w, ops, d, nil, nil, 20*time.Second)
		vs := oracleBuild(w, ops, bb)
		vs = append(vs, oracleLeftovers(bb)...)
		limit := 3
		if o.Tier == "thorough" || o.Focus {
			limit = 24
		}
		if !bb.obs.Timeout && !noErrors(&bb.obs) {
			// the same failing build observed by a caller without a diagnostics tracer / without any tracer:
			// what the caller is told and what the builder refuses afterwards must not depend on who listens
			for mode := 1; mode <= 2; mode++ {
				dm := filepath.Join(d, fmt.Sprintf("mode%d", mode))
				os.MkdirAll(dm, 0o755)
				bm := runBuildMode(w, ops, dm, nil, nil, 20*time.Second, mode)
				if len(bm.obs.Outcomes) == len(bb.obs.Outcomes) {
					for j := range bm.obs.Outcomes {
						a, b := bb.obs.Outcomes[j], bm.obs.Outcomes[j]
						if a.Kind != b.Kind || a.NErrors != b.NErrors {
							vs = append(vs, viol("C12", fmt.Sprintf("operation %d ends as %s (%d errors) with a full tracer and as %s (%d errors) with tracer mode %d: failures must be reported and the builder refused afterwards whoever listens", j, a.Kind, a.NErrors, b.Kind, b.NErrors, mode)))
							break
						}
					}
				}
				if bm.obs.Bundle != nil {
					vs = append(vs, viol("C12", fmt.Sprintf("a bundle came out of a build that reported an error (tracer mode %d)", mode)))
				}
				os.RemoveAll(dm)
			}
		}
		if !bb.obs.Timeout {
			pv, runs := oracleOrder(w, ops, bb, d, limit, rng.Fork())
			vs = append(vs, pv...)
			permRuns += runs
			if i%3 == 0 || o.Tier == "thorough" || o.Focus {
				fv, fruns := oracleFaults(w, ops, bb, d, o.Tier == "thorough" || o.Focus, rng.Fork())
				vs = append(vs, fv...)
				faultRuns += fruns
			}
		}
		desc := bundleDesc{World: w, Ops: ops, Obs: &bb.obs}
		db, _ := json.Marshal(desc)
		h := sha256.Sum256(db)
		c := Case{Desc: desc, Key: hex.EncodeToString(h[:8]), Kind: kindOfBuild(&bb.obs),
			Nontrivial: len(bb.obs.Calls) > 2, Viol: vs}
		if !o.Focus && !bb.obs.Timeout {
			e := newWorldEmit(w, ops)
			c.Coq = fmt.Sprintf("CBuild %s %s %s", e.worldCoq(), e.opsCoq(ops), obsCoq(&bb.obs))
		}
		sink.Add(c)
		os.RemoveAll(d)
		if bb.obs.Timeout {
			// an abandoned build goroutine may still be spinning: stop here
			sink.Close(false, "stopped early: a build hit the watchdog")
			os.RemoveAll(work)
			os.Exit(0)
		}
	}
	sink.Close(false, fmt.Sprintf("permuted rebuilds: %d", permRuns), fmt.Sprintf("fault-injected rebuilds (every single failing fetch/versions/source/finder call; pairs in thorough): %d", faultRuns))
}

func kindOfBuild(o *BuildObs) string {
	switch {
	case o.Timeout:
		return "timeout"
	case o.Bundle != nil && noErrors(o):
		return "build/ok"
	case o.Bundle != nil:
		return "build/ok-with-refusals"
	default:
		return "build/failed"
	}
}

var _ = sourcebundle.DiagError
