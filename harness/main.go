package main

import (
	"flag"
	"fmt"
	"os"
)

type Opts struct {
	Seed   uint64
	Tier   string
	Out    string
	Focus  bool   // oracle-only enlarged search (after a broken proof / correspondence)
	Replay string // replay file
	Scale  int
}

var streams = map[string]func(o *Opts){}

func main() {
	if len(os.Args) < 2 {
		fmt.Fprintln(os.Stderr, "usage: harness <stream> [flags]")
		os.Exit(2)
	}
	name := os.Args[1]
	fs := flag.NewFlagSet(name, flag.ExitOnError)
	o := &Opts{}
	fs.Uint64Var(&o.Seed, "seed", 1, "")
	fs.StringVar(&o.Tier, "tier", "quick", "")
	fs.StringVar(&o.Out, "out", "run/tmp", "")
	fs.BoolVar(&o.Focus, "focus", false, "")
	fs.StringVar(&o.Replay, "replay", "", "")
	fs.IntVar(&o.Scale, "scale", 1, "")
	fs.Parse(os.Args[2:])
	f, ok := streams[name]
	if !ok {
		fmt.Fprintf(os.Stderr, "unknown stream %q\n", name)
		os.Exit(2)
	}
	f(o)
}
