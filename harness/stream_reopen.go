package main

// Stream "reopen" (C09): bundles built by the real Builder from scripted
// worlds are opened again and archived/extracted; every accessor, the
// checksum, forward and reverse lookups relative to the root, and the two
// directory trees are compared.  The manifest the builder wrote is decoded
// and handed to the Gallina model of OpenDir (Bundle/Lookup.v) under both
// roots, together with what the implementation's accessors returned.

import (
	"bytes"
	"encoding/json"
	"fmt"
	"os"
	"path/filepath"
	"reflect"
	"sort"
	"strings"
	"time"

	"github.com/hashicorp/go-slug/sourceaddrs"
	"github.com/hashicorp/go-slug/sourcebundle"
)

func init() { streams["reopen"] = runReopen }

type reopenObs struct {
	World    *World     `json:"world"`
	Ops      []OpSpec   `json:"ops"`
	Closed   bool       `json:"closed"`
	Manifest string     `json:"manifest,omitempty"`
	First    *BundleObs `json:"first,omitempty"`
	Lookups  []string   `json:"lookups,omitempty"`
	Listing  []string   `json:"listing,omitempty"`
}

// lookupsOf: every lookup answer made relative to the root.
func lookupsOf(b *sourcebundle.Bundle, root string, obs *BundleObs) []string {
	var out []string
	rel := func(p string) string {
		r, err := filepath.Rel(root, p)
		if err != nil {
			return "ABS:" + p
		}
		return r
	}
	subs := []string{"", "a", "a/b", "x/y.tf"}
	for _, ps := range obs.Pkgs {
		p, err := sourceaddrs.ParseRemotePackage(ps)
		if err != nil {
			out = append(out, "unparseable package "+ps)
			continue
		}
		for _, sub := range subs {
			lp, err := b.LocalPathForRemoteSource(p.SourceAddr(sub))
			if err != nil {
				out = append(out, fmt.Sprintf("fwd %s//%s -> ERR", ps, sub))
				continue
			}
			out = append(out, fmt.Sprintf("fwd %s//%s -> %s", ps, sub, rel(lp)))
			back, err := b.SourceForLocalPath(lp)
			if err != nil {
				out = append(out, fmt.Sprintf("rev %s -> ERR", rel(lp)))
			} else {
				out = append(out, fmt.Sprintf("rev %s -> %s", rel(lp), back))
			}
		}
	}
	for _, rp := range obs.Rpkgs {
		for _, v := range obs.Versions[rp] {
			for _, sub := range subs[:2] {
				s := rp + "@" + v
				if sub != "" {
					s += "//" + sub
				}
				a, err := sourceaddrs.ParseFinalSource(s)
				if err != nil {
					out = append(out, "unparseable "+s)
					continue
				}
				lp, err := b.LocalPathForSource(a)
				if err != nil {
					out = append(out, fmt.Sprintf("fwd %s -> ERR", s))
				} else {
					out = append(out, fmt.Sprintf("fwd %s -> %s", s, rel(lp)))
				}
			}
		}
	}
	for _, p := range []string{root, filepath.Join(root, "terraform-sources.json"), filepath.Join(root, "nosuch", "x"), filepath.Dir(root)} {
		if _, err := b.SourceForLocalPath(p); err == nil {
			out = append(out, "rev "+rel(p)+" -> attributed")
		} else {
			out = append(out, "rev "+rel(p)+" -> ERR")
		}
	}
	return out
}

// treeOf: the comparable part of a snapshot (no inode numbers, times to the second)
func treeOf(root string) map[string]string {
	out := map[string]string{}
	for p, e := range snapshot(root) {
		if p == "" {
			continue
		}
		switch e.Kind {
		case "file":
			// modification times survive an archive to the nearest second (C02); they are
			// compared with that tolerance by mtimeDrift, not here
			out[p] = fmt.Sprintf("file %o %s", e.Perm, e.Hash)
		case "dir":
			out[p] = fmt.Sprintf("dir %o", e.Perm)
		case "link":
			out[p] = "link " + e.Target
		default:
			out[p] = e.Kind
		}
	}
	return out
}

func decorate(rng *Rng, w *World) {
	for i := range w.Contents {
		c := &w.Contents[i]
		if c.Extra == nil {
			c.Extra = map[string]string{}
		}
		if rng.Chance(50) {
			c.Extra["emptydir/"] = ""
		}
		if rng.Chance(30) {
			c.Extra["deep/er/emptier/"] = ""
		}
		if rng.Chance(50) {
			c.Extra["bin/run.sh"] = "#!/bin/sh\n"
			c.Modes = map[string]uint32{"bin/run.sh": uint32(rng.Pick([]string{"\x1ed", "\x01\xed", "\x01\x80", "\x01\x24"})[0])}
			c.Modes["bin/run.sh"] = []uint32{0o755, 0o700, 0o600, 0o444, 0o640}[rng.Intn(5)]
		}
		if rng.Chance(25) {
			// permission bits all zero (readable by root only): they must come back as they are
			c.Extra["keys/locked.pem"] = "k"
			if c.Modes == nil {
				c.Modes = map[string]uint32{}
			}
			c.Modes["keys/locked.pem"] = 0
		}
		if rng.Chance(40) {
			c.Links = map[string]string{"readme-link": "README"}
			if rng.Chance(50) {
				c.Links["bin/up"] = "../README"
			}
		}
		if rng.Chance(20) {
			c.Extra["name with space.txt"] = "x"
			c.Extra["ünï.txt"] = "y"
		}
		if rng.Chance(25) { // re-included version-control and tool directories survive the build and must survive the archive
			c.Ignore = "!.git/\n!.terraform/\n"
			c.Extra[".git/config"] = "[core]"
			c.Extra[".terraform/plugins/p.bin"] = "bin"
			c.Extra[".terraform/modules/modules.json"] = "{}"
		} else if rng.Chance(15) {
			c.Ignore = "*.log\nsecret/\n"
			c.Extra["debug.log"] = "log"
			c.Extra["secret/key"] = "k"
		}
	}
}

func manifestToDoc(raw []byte) (*mfDoc, error) {
	var d mfDoc
	if err := json.Unmarshal(raw, &d); err != nil {
		return nil, err
	}
	for i := range d.Registry {
		var keys []string
		for k := range d.Registry[i].Versions {
			keys = append(keys, k)
		}
		sort.Strings(keys)
		d.Registry[i].order = keys
	}
	return &d, nil
}

func openedCoq(b *sourcebundle.Bundle, root, modelRoot string) string {
	var pkgs, reg [][4]string
	for _, p := range b.RemotePackages() {
		lp, _ := b.LocalPathForRemoteSource(p.SourceAddr(""))
		if strings.HasPrefix(lp, root) {
			lp = modelRoot + lp[len(root):]
		}
		cm, msg := "", ""
		if m := b.RemotePackageMeta(p); m != nil {
			cm, msg = m.GitCommitID(), m.GitCommitMessage()
		}
		pkgs = append(pkgs, [4]string{p.String(), lp, cm, msg})
	}
	for _, rp := range b.RegistryPackages() {
		for _, v := range b.RegistryPackageVersions(rp) {
			src, _ := b.RegistryPackageSourceAddr(rp, v)
			reason := ""
			if d := b.RegistryPackageVersionDeprecation(rp, v); d != nil {
				reason = d.Reason
			}
			reg = append(reg, [4]string{rp.String(), v.String(), src.String(), reason})
		}
	}
	sort.SliceStable(pkgs, func(i, j int) bool { return less4(pkgs[i], pkgs[j]) })
	sort.SliceStable(reg, func(i, j int) bool { return less4(reg[i], reg[j]) })
	return fmt.Sprintf("(Some (mkOpened %s %s))", coqTup4(pkgs), coqTup4(reg))
}

func runReopen(o *Opts) {
	rng := NewRng(o.Seed)
	sink := NewSink(o.Out, "reopen", "Corr.RunManifest",
		"cases: bundles built by the real Builder from scripted worlds (1-4 remote packages, some sharing content and therefore a directory; 0-2 registry packages with 1-4 versions, sub-paths, deprecations, metadata; package trees with empty directories, odd file modes, in-package links, unusual names, ignore files), closed, then re-opened with OpenDir and archived with WriteArchive + ExtractArchive into a second directory; compared three ways: all accessors, checksum, forward/reverse lookups relative to the root, recursive tree; the written manifest is decoded and evaluated by the model under both roots; non-trivial = build closed with at least one package; distinct by world+ops",
		120)
	n := 160 * o.Scale
	if o.Tier == "thorough" {
		n = 3000 * o.Scale
	}
	if o.Focus {
		n = 3000 * o.Scale
	}
	work, _ := os.MkdirTemp("", "verif-reopen-")
	defer os.RemoveAll(work)
	for i := 0; i < n; i++ {
		w, ops := genWorld(rng, genCfg{maxPkgs: 4, maxRpkgs: 2, maxDeps: 2, maxOps: 3})
		decorate(rng, w)
		// drop anything after close
		for k, op := range ops {
			if op.Kind == "close" {
				ops = ops[:k+1]
				break
			}
		}
		caseDir := filepath.Join(work, fmt.Sprintf("c%d", i))
		target := filepath.Join(caseDir, "bundle")
		os.MkdirAll(target, 0o755)
		bb := runBuild(w, ops, target, nil, nil, 20*time.Second)
		kb, _ := json.Marshal(struct {
			W *World
			O []OpSpec
		}{w, ops})
		ob := reopenObs{World: w, Ops: ops}
		c := Case{Kind: "build", Key: string(kb)}
		if bb.obs.Timeout {
			c.Viol = append(c.Viol, viol("C19", "build does not return within 20 s"))
		}
		if bb.bundle != nil {
			ob.Closed = true
			c.Kind = "build/closed"
			b0 := bb.bundle
			obs0 := bb.obs.Bundle
			ob.First, ob.Manifest, ob.Listing = obs0, bb.obs.Manifest, bb.obs.Listing
			c.Nontrivial = len(obs0.Pkgs) > 0
			look0 := lookupsOf(b0, target, obs0)
			ob.Lookups = look0
			tree0 := treeOf(target)
			func() {
				defer func() {
					if p := recover(); p != nil {
						c.Viol = append(c.Viol, viol("C19", fmt.Sprintf("re-opening or archiving a finished bundle panics: %v", p)))
					}
				}()
				// ---- re-open ----
				for round := 0; round < 3; round++ {
					b1, err := sourcebundle.OpenDir(target)
					if err != nil {
						c.Viol = append(c.Viol, viol("C09", "a finished bundle does not open again: "+err.Error()))
						break
					}
					obs1 := observeBundle(b1, target)
					if d := diffObs(obs0, obs1); d != "" {
						c.Viol = append(c.Viol, viol("C09", "re-opened bundle differs from the one returned by Close: "+d))
						break
					}
					if d := diffList(look0, lookupsOf(b1, target, obs1)); d != "" {
						c.Viol = append(c.Viol, viol("C09", "re-opened bundle answers a lookup differently: "+d, tieSig(obs0)...))
						break
					}
				}
				// ---- re-open through a path relative to the working directory ----
				if wd, err := os.Getwd(); err == nil && os.Chdir(caseDir) == nil {
					if b4, err := sourcebundle.OpenDir("bundle"); err != nil {
						c.Viol = append(c.Viol, viol("C09", "a finished bundle does not open through a relative path: "+err.Error()))
					} else {
						obs4 := observeBundle(b4, target)
						if d := diffObs(obs0, obs4); d != "" {
							c.Viol = append(c.Viol, viol("C09", "bundle re-opened through a relative path differs from the one returned by Close: "+d))
						} else if d := diffList(look0, lookupsOf(b4, target, obs4)); d != "" {
							c.Viol = append(c.Viol, viol("C09", "bundle re-opened through a relative path answers a lookup differently: "+d, tieSig(obs0)...))
						}
					}
					os.Chdir(wd)
				}
				// ---- re-open through a path with a symbolic link in it: the caller's spelling is the root ----
				via := filepath.Join(caseDir, "via")
				if err := os.Symlink(target, via); err == nil {
					if b3, err := sourcebundle.OpenDir(via); err != nil {
						c.Viol = append(c.Viol, viol("C09", "a finished bundle does not open through a symbolic link to its directory: "+err.Error()))
					} else {
						obs3 := observeBundle(b3, via)
						if d := diffObs(obs0, obs3); d != "" {
							c.Viol = append(c.Viol, viol("C09", "bundle re-opened through a symbolic link differs from the one returned by Close: "+d))
						} else if d := diffList(look0, lookupsOf(b3, via, obs3)); d != "" {
							c.Viol = append(c.Viol, viol("C09", "bundle re-opened through a symbolic link answers a lookup differently (relative to the directory it was opened in): "+d, tieSig(obs0)...))
							c.Viol = append(c.Viol, viol("C18", "in a bundle opened through a symbolic link to its directory, forward and reverse lookups no longer stay below that directory / invert each other: "+d, tieSig(obs0)...))
						}
					}
					os.Remove(via)
				}
				if d := diffTree(tree0, treeOf(target)); d != "" {
					c.Viol = append(c.Viol, viol("C09", "opening the bundle changed its directory: "+d))
				}
				// ---- archive and extract ----
				var buf bytes.Buffer
				if err := b0.WriteArchive(&buf); err != nil {
					c.Viol = append(c.Viol, viol("C09", "WriteArchive fails on a finished bundle: "+err.Error()))
					return
				}
				dir2 := filepath.Join(caseDir, "extracted")
				os.MkdirAll(dir2, 0o755)
				b2, err := sourcebundle.ExtractArchive(bytes.NewReader(buf.Bytes()), dir2)
				if err != nil {
					c.Viol = append(c.Viol, viol("C09", "the archive of a finished bundle does not extract: "+err.Error()))
					return
				}
				obs2 := observeBundle(b2, dir2)
				if d := diffObs(obs0, obs2); d != "" {
					c.Viol = append(c.Viol, viol("C09", "extracted bundle differs from the one returned by Close: "+d))
				}
				if d := diffList(look0, lookupsOf(b2, dir2, obs2)); d != "" {
					c.Viol = append(c.Viol, viol("C09", "extracted bundle answers a lookup differently: "+d, tieSig(obs0)...))
				}
				if d := diffTree(tree0, treeOf(dir2)); d != "" {
					c.Viol = append(c.Viol, viol("C09", "extracted tree differs from the bundle directory: "+d))
				}
				if d := mtimeDrift(target, dir2); d != "" {
					c.Viol = append(c.Viol, viol("C09", "extracted file times differ by more than the archive's one-second resolution: "+d))
				}
				// ---- the model on the written manifest, under both roots ----
				if doc, err := manifestToDoc([]byte(bb.obs.Manifest)); err == nil && !o.Focus {
					dom := true
					for _, p := range doc.Packages {
						dom = dom && addrInDomain(p.Source) && isASCII(p.Local)
					}
					for _, r := range doc.Registry {
						dom = dom && addrInDomain(r.Source)
						for k, v := range r.Versions {
							dom = dom && isASCII(k) && addrInDomain(v.Source)
						}
					}
					c.Coq = fmt.Sprintf("Case (s2l \"/bundle\") %s %s true %s []", coqManifest(doc), coqBool(dom), openedCoq(b0, target, "/bundle"))
					c2 := Case{Kind: "extracted/model", Key: string(kb) + "|2", Desc: map[string]string{"manifest": bb.obs.Manifest, "root": "/extracted"},
						Coq: fmt.Sprintf("Case (s2l \"/extracted\") %s %s true %s []", coqManifest(doc), coqBool(dom), openedCoq(b2, dir2, "/extracted"))}
					defer sink.Add(c2)
				}
			}()
		}
		c.Desc = ob
		sink.Add(c)
		os.RemoveAll(caseDir)
	}
	sink.Close(false)
}

// tieSig: two packages share a directory and print equally long (the reverse lookup's choice is then unspecified)
func tieSig(o *BundleObs) []string {
	byDir := map[string][]string{}
	for p, d := range o.Dirs {
		byDir[d] = append(byDir[d], p)
	}
	for _, ps := range byDir {
		min, cnt := -1, 0
		for _, p := range ps {
			if min < 0 || len(p) < min {
				min, cnt = len(p), 1
			} else if len(p) == min {
				cnt++
			}
		}
		if cnt > 1 {
			return []string{"equally_short_aliases"}
		}
	}
	return nil
}

func diffObs(a, b *BundleObs) string {
	type cmp struct {
		n    string
		x, y interface{}
	}
	for _, f := range []cmp{{"remote packages", a.Pkgs, b.Pkgs}, {"package directories", a.Dirs, b.Dirs}, {"package metadata", a.Metas, b.Metas},
		{"registry packages", a.Rpkgs, b.Rpkgs}, {"versions", a.Versions, b.Versions}, {"source addresses", a.Sources, b.Sources},
		{"deprecations", a.Deprs, b.Deprs}, {"checksum", a.Checksum, b.Checksum}} {
		if !reflect.DeepEqual(f.x, f.y) {
			return fmt.Sprintf("%s: %v vs %v", f.n, f.x, f.y)
		}
	}
	return ""
}

func diffList(a, b []string) string {
	if len(a) != len(b) {
		return fmt.Sprintf("%d answers vs %d", len(a), len(b))
	}
	for i := range a {
		if a[i] != b[i] {
			return fmt.Sprintf("%q vs %q", a[i], b[i])
		}
	}
	return ""
}

func diffTree(a, b map[string]string) string {
	var ks []string
	for k := range a {
		ks = append(ks, k)
	}
	for k := range b {
		if _, ok := a[k]; !ok {
			ks = append(ks, k)
		}
	}
	sort.Strings(ks)
	for _, k := range ks {
		if a[k] != b[k] {
			return fmt.Sprintf("%s: %q vs %q", k, a[k], b[k])
		}
	}
	return ""
}

func mtimeDrift(a, b string) string {
	sa, sb := snapshot(a), snapshot(b)
	for p, ea := range sa {
		eb, ok := sb[p]
		if !ok || ea.Kind != "file" {
			continue
		}
		ta := float64(ea.MtimeS) + float64(ea.MtimeN)/1e9
		tb := float64(eb.MtimeS) + float64(eb.MtimeN)/1e9
		if d := ta - tb; d > 1.0 || d < -1.0 {
			return fmt.Sprintf("%s: %.3f vs %.3f", p, ta, tb)
		}
	}
	return ""
}
