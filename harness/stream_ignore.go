package main

// Stream "ignore": internal/ignorefiles through the verif hooks — rule file
// parsing (with the shared default-rule flags), pattern matching and
// Ruleset.Excludes — against Ignore/Rules.v, plus an independent segment-wise
// glob reference as oracle.

import (
	"fmt"
	"strings"

	"github.com/hashicorp/go-slug/verifhooks"
)

func init() { streams["ignore"] = runIgnore }

// ---------- independent reference: the documented rule language ----------

type refRule struct {
	neg      bool
	anchored bool
	dirForm  bool
	segs     []string // pattern segments; "**" is the multi-segment wildcard
	ok       bool     // inside the documented language (each ** a whole segment, no regexp-active character)
	raw      string
	never    bool // malformed (unclosed bracket): matches nothing
}

const regexpActive = "[]\\"

func refParseLine(line string) (refRule, bool) {
	if len(line) == 0 {
		return refRule{}, false
	}
	p := strings.TrimSpace(line)
	if p == "" || p[0] == '#' {
		return refRule{}, false
	}
	r := refRule{ok: true, raw: p}
	if p[0] == '!' {
		r.neg = true
		p = p[1:]
	}
	if p == "" {
		return refRule{}, false
	}
	if strings.HasSuffix(p, "/") {
		r.dirForm = true
		p = strings.TrimSuffix(p, "/")
	}
	if strings.HasPrefix(p, "/") {
		r.anchored = true
		p = p[1:]
	}
	if p == "" && !r.dirForm {
		r.ok = false
	}
	if strings.Contains(p, "[") && !strings.Contains(p, "]") && !strings.ContainsAny(strings.ReplaceAll(p, "[", ""), regexpActive) {
		// an unclosed bracket: the line is malformed; it matches nothing and the other rules stay in force
		r.never = true
	} else if strings.ContainsAny(p, regexpActive) {
		r.ok = false
	}
	r.segs = strings.Split(p, "/")
	for i, s := range r.segs {
		if s != "**" && strings.Contains(s, "**") {
			// "name**" as the very last thing of a pattern: name, then anything (also across '/')
			pre := strings.TrimSuffix(s, "**")
			tail := i == len(r.segs)-1 && !r.dirForm && strings.HasSuffix(s, "**") && pre != "" && !strings.Contains(pre, "*")
			if !tail {
				r.ok = false
			}
		}
		if s == "" {
			r.ok = false // doubled slash inside a pattern: outside the documented language
		}
	}
	return r, true
}

// segMatch: '*' any run of non-slash characters, '?' one, others literal.
func segMatch(pat, s string) bool {
	if pat == "" {
		return s == ""
	}
	switch pat[0] {
	case '*':
		for i := 0; i <= len(s); i++ {
			if segMatch(pat[1:], s[i:]) {
				return true
			}
		}
		return false
	case '?':
		return len(s) > 0 && segMatch(pat[1:], s[1:])
	default:
		return len(s) > 0 && s[0] == pat[0] && segMatch(pat[1:], s[1:])
	}
}

// segsMatch: a "**" that is followed by more pattern absorbs zero or more whole
// segments, a final "**" absorbs one or more (possibly empty) segments.
func segsMatch(pat, path []string) bool {
	if len(pat) == 0 {
		return len(path) == 0
	}
	if len(pat) == 1 && pat[0] != "**" && strings.HasSuffix(pat[0], "**") {
		pre := strings.TrimSuffix(pat[0], "**")
		rest := strings.Join(path, "/")
		for i := 0; i <= len(rest); i++ {
			if !strings.Contains(rest[:i], "/") && segMatch(pre, rest[:i]) {
				return true
			}
		}
		return false
	}
	if pat[0] == "**" {
		if len(pat) == 1 {
			return len(path) >= 1
		}
		for k := 0; k <= len(path); k++ {
			if segsMatch(pat[1:], path[k:]) {
				return true
			}
		}
		return false
	}
	return len(path) > 0 && segMatch(pat[0], path[0]) && segsMatch(pat[1:], path[1:])
}

func (r refRule) matches(path string) bool {
	if r.never {
		return false
	}
	pat := append([]string{}, r.segs...)
	if r.dirForm {
		pat = append(pat, "**")
	}
	if !r.anchored {
		pat = append([]string{"**"}, pat...)
	}
	return segsMatch(pat, strings.Split(path, "/"))
}

var refDefaults = []refRule{
	{dirForm: true, segs: []string{".terraform"}, ok: true},
	{neg: true, dirForm: true, segs: []string{".terraform", "modules"}, ok: true},
	{dirForm: true, segs: []string{".git"}, ok: true},
}

type refRuleset struct {
	rules []refRule
	ok    bool
}

func refParse(data string) refRuleset {
	rs := refRuleset{rules: append([]refRule{}, refDefaults...), ok: true}
	lines := strings.Split(data, "\n")
	for _, l := range lines {
		l = strings.TrimSuffix(l, "\r")
		if r, ok := refParseLine(l); ok {
			rs.rules = append(rs.rules, r)
			if !r.ok {
				rs.ok = false
			}
		}
	}
	return rs
}

func (rs refRuleset) excluded(path string) bool {
	ex := false
	for _, r := range rs.rules {
		if r.matches(path) {
			ex = !r.neg
		}
	}
	return ex
}

// ---------- generators ----------

var ignNames = []string{"a", "b", "foo", ".git", "x.tf", "a b", ".terraform", "modules", "c-d", "e_f"}
var ignSegPats = []string{"a", "b", "foo", "*", "?", "a*", "*.tf", "f?o", "x.tf", ".git", "**", "**", "a b", "c-d", "*b*", "e_f", "modules", ".terraform"}

func genRuleLine(rng *Rng, hostile bool) string {
	switch k := rng.Intn(100); {
	case k < 4:
		return ""
	case k < 8:
		return "# comment " + rng.Pick(ignNames)
	case hostile && k < 12:
		return rng.Pick([]string{" ", "\t", "  \t ", "!", " ! ", "!/", "/", "//", "\\", "a\\", "**", "***", "a**b", "**a", "a**", "*/", "/*", "a(b", "a+b", "[ab]", "a|b", "^a", "a$", "\\d", "a\\*b", "{a,b}", "a[b", "[", "notes[draft.md", "x.tf[", "\ufeff", "\ufeff*.log", "\ufeff ", "terraform.tfstate*", "x.tf*", "a*"})
	}
	n := 1 + rng.Intn(3)
	var segs []string
	for i := 0; i < n; i++ {
		segs = append(segs, rng.Pick(ignSegPats))
	}
	p := strings.Join(segs, "/")
	if rng.Chance(30) {
		p = "/" + p
	}
	if rng.Chance(30) {
		p += "/"
	}
	if rng.Chance(25) {
		p = "!" + p
	}
	if rng.Chance(8) {
		p = " " + p
	}
	if rng.Chance(8) {
		p += "  "
	}
	if rng.Chance(5) {
		p += "\r"
	}
	return p
}

func genRuleFile(rng *Rng, hostile bool) string {
	n := rng.Intn(5)
	var lines []string
	for i := 0; i < n; i++ {
		lines = append(lines, genRuleLine(rng, hostile))
	}
	s := strings.Join(lines, "\n")
	if rng.Chance(50) && n > 0 {
		s += "\n"
	}
	return s
}

func pathUniverse() []string {
	names := []string{"a", "b", "foo", ".git", "x.tf", "a b", ".terraform", "modules", "c-d", "a\nb"}
	var out []string
	var rec func(prefix string, depth int)
	rec = func(prefix string, depth int) {
		for _, n := range names {
			p := n
			if prefix != "" {
				p = prefix + "/" + n
			}
			out = append(out, p, p+"/")
			if depth < 2 && (n == "a" || n == "foo" || n == ".terraform" || n == "modules" || n == ".git") {
				rec(p, depth+1)
			}
		}
	}
	rec("", 0)
	return out
}

func coqRule(r verifhooks.VerifRule) string {
	return fmt.Sprintf("mkRule %s %s %s", coqStr(r.Val), coqBool(r.Negated), coqBool(r.NegationsAfter))
}
func coqBools(bs []bool) string {
	var out []string
	for _, b := range bs {
		out = append(out, coqBool(b))
	}
	return coqList(out)
}

func parseRules(data string) (rs *verifhooks.Ruleset, panicked interface{}) {
	defer func() {
		if p := recover(); p != nil {
			panicked = p
		}
	}()
	rs, _ = verifhooks.ParseIgnoreFileContent(strings.NewReader(data))
	return
}

func inModelRule(val string) bool {
	for i := 0; i < len(val); i++ {
		c := val[i]
		if c >= 128 || strings.ContainsRune("[]\\", rune(c)) {
			return false
		}
	}
	return true
}

func runIgnore(o *Opts) {
	rng := NewRng(o.Seed)
	sink := NewSink(o.Out, "ignore", "Corr.RunIgnore",
		"cases: rule files from a grammar (literal / * / ? / ** segments, anchoring, directory form, negation, comments, blank, whitespace-only and degenerate lines, CRLF, regexp-active characters) parsed under a chosen state of the shared default flags; each parsed rule set x paths (depth <= 3 over 9 names, file and directory form); non-trivial = a user rule matches the path or the file has a negation; distinct by (rule file, path)",
		700)
	paths := pathUniverse()
	nFiles := 400 * o.Scale
	if o.Tier == "thorough" {
		nFiles = 8000 * o.Scale
	}
	if o.Focus {
		nFiles = 6000 * o.Scale
	}
	corpus := []string{"", "\n", "foo/\n", "!a\n", "/a/*\n", "a/\n!a/b\n", "*.tf\n!x.tf\n", " \n", "!\n", "\t\r\n", "#c\n\n!foo\nbar/\n"}
	flagStates := [][]bool{{true, false, false}, {true, true, true}}
	// C16: what a parsed rule set answers must not change when another rule file is parsed later
	stablePaths := []string{"a", "b", "foo", "x.tf", "a/b", "a/x.tf", "foo/a", "modules/a", ".git/config", ".terraform/modules/m", "c-d", "e_f/x.tf", "a b"}
	var prevRS *verifhooks.Ruleset
	var prevData string
	var prevAns []bool
	answers := func(r *verifhooks.Ruleset) []bool {
		var out []bool
		for _, p := range stablePaths {
			// Excluded only: Dominating legitimately depends on the shared default-rule flags
			// (it only licenses pruning, which C03_dominating_sound shows never changes the result)
			ex, _ := r.Excludes(p)
			out = append(out, ex.Excluded)
		}
		return out
	}
	for i := 0; i < nFiles+len(corpus); i++ {
		var data string
		hostile := rng.Chance(25)
		if i < len(corpus) {
			data = corpus[i]
		} else {
			data = genRuleFile(rng, hostile)
		}
		before := flagStates[rng.Intn(2)]
		if i < len(corpus) {
			before = flagStates[0]
		}
		verifhooks.SetDefaultFlags(before)
		rs, pn := parseRules(data)
		after := verifhooks.DefaultFlags()
		if prevRS != nil {
			func() {
				defer func() { recover() }()
				now := answers(prevRS)
				for k := range now {
					if now[k] != prevAns[k] {
						sink.Add(Case{Desc: map[string]interface{}{"op": "stability", "first": prevData, "then": data, "path": stablePaths[k]}, Kind: "stability", Key: "S|" + prevData + "|" + data, Nontrivial: true,
							Viol: []Violation{{Property: "C16", What: fmt.Sprintf("the rule set parsed from %q answers differently for %q after the unrelated rule file %q has been parsed (shared state between rule sets)", prevData, stablePaths[k], data)}}})
						break
					}
				}
			}()
		}
		prevRS, prevData, prevAns = nil, "", nil
		if pn == nil && rs != nil {
			func() {
				defer func() { recover() }()
				a := answers(rs)
				prevRS, prevData, prevAns = rs, data, a
			}()
		}
		desc := map[string]interface{}{"op": "read", "data": data, "flags_before": before, "flags_after": after}
		c := Case{Desc: desc, Kind: "read", Key: "R|" + data + fmt.Sprint(before), Nontrivial: strings.Contains(data, "!")}
		if pn != nil {
			desc["panic"] = fmt.Sprint(pn)
			c.Kind = "read/panic"
			sig := []string{}
			c.Viol = append(c.Viol, Violation{Property: "C19", What: fmt.Sprintf("parsing rule file %q panics: %v", data, pn), Signatures: sig})
		}
		if isASCII(data) && !strings.Contains(data, "\x00") {
			obs := "None"
			if pn == nil && rs != nil {
				var rl []string
				for _, r := range rs.VerifRules() {
					rl = append(rl, coqRule(r))
				}
				obs = "(Some " + coqList(rl) + ")"
			}
			c.Coq = fmt.Sprintf("CRead %s %s %s %s", coqBools(before), coqStr(data), obs, coqBools(after))
		}
		sink.Add(c)
		if pn != nil || rs == nil {
			continue
		}
		// Excludes on a sample of the path universe
		ref := refParse(data)
		rules := rs.VerifRules()
		allIn := true
		var rl []string
		for _, r := range rules {
			rl = append(rl, coqRule(r))
			if !inModelRule(r.Val) {
				allIn = false
			}
		}
		rulesCoq := coqList(rl)
		if ref.ok && allIn {
			sink.Add(Case{Coq: "CRuleOk " + rulesCoq, Desc: map[string]interface{}{"op": "rule_ok", "data": data}, Kind: "rule_ok", Key: "K|" + data, Nontrivial: len(rules) > 3})
		}
		nPaths := 12
		if o.Tier == "thorough" {
			nPaths = 40
		}
		type verdict struct{ ex, dom bool }
		verdicts := map[string]verdict{}
		for _, p := range paths {
			res, _ := rs.Excludes(p)
			verdicts[p] = verdict{res.Excluded, res.Dominating}
		}
		for k := 0; k < nPaths; k++ {
			p := paths[rng.Intn(len(paths))]
			v := verdicts[p]
			userMatch := false
			for _, r := range ref.rules[3:] {
				if r.matches(p) {
					userMatch = true
				}
			}
			cc := Case{Desc: map[string]interface{}{"op": "excludes", "data": data, "path": p, "excluded": v.ex, "dominating": v.dom},
				Kind: "excludes", Key: "E|" + data + "|" + p, Nontrivial: userMatch}
			if allIn {
				cc.Coq = fmt.Sprintf("CExcl %s %s (%s, %s)", rulesCoq, coqStr(p), coqBool(v.ex), coqBool(v.dom))
			} else {
				cc.Kind = "excludes/out-of-model"
			}
			// oracle 1: documented rule language, segment-wise
			if ref.ok && ref.excluded(p) != v.ex {
				cc.Viol = append(cc.Viol, Violation{Property: "C03", What: fmt.Sprintf("rule file %q, path %q: Excluded=%v but the documented rule language says %v", data, p, v.ex, !v.ex)})
			}
			sink.Add(cc)
		}
		// oracle 2: a dominating verdict for a directory must cover everything below it
		for _, d := range paths {
			if !strings.HasSuffix(d, "/") {
				continue
			}
			v := verdicts[d]
			if !(v.ex && v.dom) {
				continue
			}
			for _, q := range paths {
				if strings.HasPrefix(q, d) && q != d && !verdicts[q].ex {
					sig := []string{}
					sink.Add(Case{Desc: map[string]interface{}{"op": "dominating", "data": data, "dir": d, "below": q}, Kind: "dominating-unsound",
						Key: "D|" + data + "|" + d + "|" + q, Nontrivial: true,
						Viol: []Violation{{Property: "C03", What: fmt.Sprintf("rule file %q: %q is reported Excluded and Dominating (Pack prunes the directory) but %q below it is not excluded", data, d, q), Signatures: sig}}})
					break
				}
			}
		}
	}
	verifhooks.SetDefaultFlags([]bool{true, false, false})
	sink.Close(false)
}
