package main

// Emission of "addr" cases for the Gallina model (Corr/RunAddr.v).

import (
	"fmt"
	"strings"
)

func init() { addrCaseCoq = addrCaseCoqImpl }

var apiCoq = map[string]string{
	"source": "ApSource", "final": "ApFinal", "remote": "ApRemote", "remotepkg": "ApRemotePkg",
	"registry": "ApRegistry", "registrypkg": "ApRegistryPkg", "finalregistry": "ApFinalRegistry", "local": "ApLocal",
}

var kindCoq = map[string]int{"local": 0, "remote": 1, "remotepkg": 2, "registry": 3, "registrypkg": 4, "registryfinal": 5}

// addrInDomain: a conservative description of the inputs the model covers
// (the model itself answers Out for more precise reasons; an Out on an input
// declared in-domain here is a mismatch).
func addrInDomain(s string) bool {
	if !isASCII(s) || strings.Contains(s, "[") {
		return false
	}
	return !strings.Contains(strings.ToLower(s), "xn--")
}

func addrCaseCoqImpl(o addrObs) string {
	if o.Panic != "" {
		return ""
	}
	var api, in string
	if o.Api == "make" {
		api = fmt.Sprintf("(ApMake %s %s)", coqStr(o.MakeTyp), coqStr(o.MakeSub))
		in = o.MakeRaw
	} else {
		a, ok := apiCoq[o.Api]
		if !ok {
			return ""
		}
		api, in = a, o.In
	}
	dom := addrInDomain(in) && addrInDomain(o.MakeSub)
	obs := "None"
	if o.Ok {
		obs = fmt.Sprintf("(Some (mkObs %d %s %s %s %s %s %s %s %s %s %s %s))", kindCoq[o.Kind], coqStr(o.Str), coqStr(o.Sub),
			coqStr(o.Pkg), coqStr(o.Ver), coqStr(o.Type), coqStr(o.Scheme), coqStr(o.Host), coqStr(o.Path), coqStr(o.RawPath), coqStr(o.Query), coqStr(o.Frag))
	}
	return fmt.Sprintf("Case %s %s %s %s", api, coqStr(in), coqBool(dom), obs)
}
