package main

// Stream "pack": runs the real Packer.Pack in a chrooted child on generated
// trees (files, directories incl. empty ones, links of every kind, special
// files, rule files) under varied options, spellings of the source path,
// working directories and histories; reads the slug back with archive/tar; feeds
// it to the real Unpack; emits a case for the Gallina model of Pack; evaluates the
// oracles of C02, C03 (pack level), C05, C12 (writer faults), C16, C19, C20.

import (
	"crypto/sha256"
	"encoding/hex"
	"encoding/json"
	"fmt"
	"os"
	"path"
	"path/filepath"
	"runtime"
	"sort"
	"strings"
	"sync"
	"time"
)

func init() { streams["pack"] = runPackStream }

type PackCase struct {
	Init    *TNode   `json:"init"`
	Src     string   `json:"src"` // spelling handed to Pack
	Cwd     string   `json:"cwd"`
	Deref   bool     `json:"deref"`
	Ignore  bool     `json:"ignore"`
	Legacy  bool     `json:"legacy,omitempty"`
	Allow   []string `json:"allow,omitempty"`
	History []string `json:"history,omitempty"`
	Flags   []bool   `json:"flags,omitempty"`
	FailAt  int      `json:"fail_at"`
	Risky   bool     `json:"risky,omitempty"` // contains shapes that may hang an unrepaired Pack (cycles, fifos)
	// ModelOnly: the case is compared with the model only (no oracle is evaluated on it)
	ModelOnly bool `json:"model_only,omitempty"`
}

type PackObs struct {
	Err      string      `json:"err,omitempty"`
	Illegal  bool        `json:"illegal,omitempty"`
	Panic    string      `json:"panic,omitempty"`
	Timeout  bool        `json:"timeout,omitempty"`
	Crashed  string      `json:"crashed,omitempty"`
	Entries  []EntrySpec `json:"entries"`
	Files    []string    `json:"meta_files"`
	Size     int64       `json:"meta_size"`
	HasMeta  bool        `json:"has_meta"`
	SlugLen  int         `json:"slug_len"`
	Unpacked string      `json:"unpack_err,omitempty"`
	FlagsOut []bool      `json:"flags_out,omitempty"`
}

const srcAbs = "/w/src"

func mt(sec int64, frac int64) (int64, int64) { return sec, frac }

func genPackTree(rng *Rng, risky bool) (*TNode, bool, string) {
	names := []string{"a", "b.txt", "c", "d", "sp ace", "-dash", ".hidden", "e.tf", "sub", "z", "..data", "...", "b\\c", "mod-a", "sub.tf", "n\nl", "d\u00e9j\u00e0"}
	fracs := []int64{0, 400000000, 500000000, 600000000, 999999999, 1}
	perms := []uint32{0o644, 0o600, 0o755, 0o444, 0o400, 0o777, 0o640, 0o000, 0o001}
	hasOutLink := false
	var gen func(depth int) *TNode
	gen = func(depth int) *TNode {
		d := tdir([]uint32{0o755, 0o750, 0o700, 0o555 | 0o200}[rng.Intn(4)], nil)
		d.Mtime, d.MtimeN = 1500000000+int64(rng.Intn(100000)), fracs[rng.Intn(len(fracs))]
		n := rng.Intn(5)
		if depth == 0 {
			n = 2 + rng.Intn(5)
		}
		for i := 0; i < n; i++ {
			name := rng.Pick(names)
			if rng.Chance(4) {
				name = strings.Repeat("n", 120)
			}
			switch k := rng.Intn(20); {
			case k < 9:
				f := tfile(fmt.Sprintf("data-%d", rng.Intn(1000)), perms[rng.Intn(len(perms))])
				if rng.Chance(10) {
					f.Data = ""
				}
				f.Mtime, f.MtimeN = 1400000000+int64(rng.Intn(100000)), fracs[rng.Intn(len(fracs))]
				if rng.Chance(6) {
					f.Mtime, f.MtimeN = 0, []int64{400000000, 1}[rng.Intn(2)] // rounds to the epoch itself: a time like any other
				}
				d.Kids[name] = f
			case k < 13 && depth < 3:
				d.Kids[name] = gen(depth + 1)
			case k < 19:
				up := strings.Repeat("../", depth)
				var t string
				switch j := rng.Intn(17); {
				case j < 5:
					t = rng.Pick([]string{"a", "b.txt", "sub", "c/a", "nothing", "./a"})
				case j < 7:
					t = up + rng.Pick([]string{"a", "b.txt", "sub"})
					if rng.Chance(20) {
						// leaves the source directory and comes back in through its name: inside on disk,
						// outside at its position in an archive whose root has another name
						t = up + "../src/" + rng.Pick([]string{"a", "b.txt", "sub", "nothing"})
					} else if rng.Chance(25) {
						// exactly the parent of the source directory, or the source directory itself
						t = strings.TrimSuffix(up+rng.Pick([]string{"..", "../src/..", ".", ""}), "/")
						if t == "" {
							t = "."
						}
						if strings.HasSuffix(t, "..") {
							hasOutLink = true
						}
					}
				case j == 7:
					t = srcAbs + "/" + rng.Pick([]string{"a", "b.txt"})
					hasOutLink = true // absolute targets are never stored as links
				case j == 8:
					t = up + "../outside/f"
					hasOutLink = true
				case j == 9:
					t = up + "../src-sib/secret"
					hasOutLink = true
				case j == 10:
					t = "/w/outside/d"
					hasOutLink = true
				case j == 11:
					t = up + "../outside/d"
					hasOutLink = true
				case j == 12:
					t = "/secret"
					hasOutLink = true
				case j == 14:
					// leaves the tree and comes back: a chain whose end lies inside
					t = up + "../outside/" + rng.Pick([]string{"back", "backd"})
					hasOutLink = true
				case j == 15:
					// into a place that is allow-listed for another source directory only
					t = up + "../other/outside/f"
					hasOutLink = true
				case j == 16:
					t = up + "../outside/back"
					hasOutLink = true
				default:
					t = up + "../outside/chain"
					hasOutLink = true
				}
				d.Kids[name] = tlink(t)
			default:
				if risky {
					d.Kids[name] = &TNode{Kind: "fifo"}
				}
			}
		}
		return d
	}
	src := gen(0)
	if _, ok := src.Kids["a"]; !ok {
		src.Kids["a"] = tfile("root-a", 0o644)
		src.Kids["a"].Mtime = 1400000002
	}
	ignore := ""
	if rng.Chance(45) {
		ignore = genRuleFile(rng, rng.Chance(25))
		if rng.Chance(20) {
			// a rule ending in ** that is no whole-segment **: matches files as well as directories
			ignore += rng.Pick([]string{"a**", "b.txt**", "c**", "e.tf**", "sub**", "d**"}) + "\n"
		}
		if rng.Chance(12) {
			// a malformed line (unclosed bracket) among the rules: it matches nothing and the other rules stay in force
			lines := strings.Split(ignore, "\n")
			at := rng.Intn(len(lines))
			bad := rng.Pick([]string{"notes[draft.md", "[", "a[b", "x.tf["})
			lines = append(lines[:at], append([]string{bad}, lines[at:]...)...)
			ignore = strings.Join(lines, "\n")
			if rng.Chance(60) {
				ignore += rng.Pick([]string{"a", "b.txt", "/a", "*.tf", "sub/", "d"}) + "\n"
			}
		}
		src.Kids[".terraformignore"] = tfile(ignore, 0o644)
		src.Kids[".terraformignore"].Mtime = 1400000001
	}
	if rng.Chance(20) {
		src.Kids[".git"] = tdir(0o755, map[string]*TNode{"HEAD": tfile("ref", 0o644), "new\nline": tfile("nl", 0o644)})
		src.Kids[".terraform"] = tdir(0o755, map[string]*TNode{"x": tfile("x", 0o644), "modules": tdir(0o755, map[string]*TNode{"m": tfile("m", 0o644)})})
	}
	outside := tdir(0o755, map[string]*TNode{
		"f":     tfile("outside-f", 0o600),
		"chain": tlink("chain2"), "chain2": tlink("f"),
		"d": tdir(0o755, map[string]*TNode{"g": tfile("outside-g", 0o644), "h": tdir(0o755, map[string]*TNode{"i": tfile("i", 0o644), "back": tlink("../../../src/a")}),
			"nest": tlink("../../src-sib"),
			"in":   tlink("g"), "up": tlink("../f"), "absin": tlink("/w/outside/d/g"), "reent": tlink("../../outside/d/g")}),
	})
	outside.Kids["f"].Mtime, outside.Kids["f"].MtimeN = 1300000000, 500000000
	outside.Kids["back"] = tlink("../src/" + rng.Pick([]string{"a", "b.txt", "c"}))
	outside.Kids["backd"] = tlink("../src/sub")
	outside.Kids["hollow"] = tdir(0o755, nil)
	if rng.Chance(12) {
		src.Kids["to-hollow"] = tlink("../outside/hollow")
		hasOutLink = true
	}
	if rng.Chance(15) {
		// an external directory holding a dangling link whose text escapes at the archive position
		outside.Kids["e"] = tdir(0o755, map[string]*TNode{"ok": tfile("e-ok", 0o644), "broken": tlink("../../gone"), "broken2": tlink("nowhere")})
		src.Kids["to-e"] = tlink("../outside/e")
		hasOutLink = true
	}
	if risky {
		// a cycle of length two among directories outside the tree
		outside.Kids["A"] = tdir(0o755, map[string]*TNode{"fa": tfile("fa", 0o644), "toB": tlink("../B")})
		outside.Kids["B"] = tdir(0o755, map[string]*TNode{"fb": tfile("fb", 0o644), "toA": tlink("../A")})
		if rng.Chance(50) {
			// the cycle reached by its real name, or below a linked parent directory
			src.Kids["to-cyc"] = tlink(rng.Pick([]string{"../outside/A", "../oalias/A"}))
		}
		outside.Kids["loop"] = tlink("loop2")
		outside.Kids["loop2"] = tlink("loop")
		outside.Kids["d"].Kids["self"] = tlink("../d")
		outside.Kids["pipe"] = &TNode{Kind: "fifo"}
		src.Kids["to-loop"] = tlink("../outside/loop")
		src.Kids["to-pipe"] = tlink("../outside/pipe")
		hasOutLink = true
	}
	w := tdir(0o755, map[string]*TNode{
		"src":     src,
		"src-sib": tdir(0o755, map[string]*TNode{"secret": tfile("sibling-secret", 0o600)}),
		"outside": outside,
		"lnk":     tlink("src"),
		"cyc1":    tlink("cyc2"),
		"cyc2":    tlink("cyc1"),
		"other": tdir(0o755, map[string]*TNode{".terraformignore": tfile("!a\n*\n", 0o644), "keep": tfile("k", 0o644),
			"outside": tdir(0o755, map[string]*TNode{"f": tfile("other-outside-f", 0o644)}),
			"deep":    tdir(0o755, map[string]*TNode{"k": tfile("k", 0o644), "x": tlink("../outside/f"), "y": tlink("k")})}),
		"out": tdir(0o755, nil),
	})
	w.Kids["oalias"] = tlink("outside")
	if rng.Chance(15) {
		// a target that passes through a linked directory and then "..": as text it ends at /w/outside/f (or d),
		// the operating system ends at /w/other/f: header and data must come from the same file
		outside.Kids["dl"] = tlink("../other/deep")
		switch rng.Intn(4) {
		case 0:
			w.Kids["other"].Kids["f"] = tfile("OTHER--F!", 0o644) // same length as outside/f
		case 1:
			w.Kids["other"].Kids["f"] = tfile("oth", 0o644)
		case 2:
			if risky {
				w.Kids["other"].Kids["f"] = &TNode{Kind: "fifo"}
			}
		}
		src.Kids[rng.Pick([]string{"to-phys", "m.txt"})] = tlink("../outside/dl/../" + rng.Pick([]string{"f", "f", "d", "chain"}))
		hasOutLink = true
	}
	root := tdir(0o755, map[string]*TNode{"w": w, "wl": tlink("w"), "secret": tfile("top-secret", 0o600), "cwd2": tdir(0o755, map[string]*TNode{"rl": tlink("../w/src")})})
	return root, hasOutLink, ignore
}

type spelling struct{ src, cwd string }

var spellings = []spelling{
	{"/w/src", "/"}, {"/w/src/", "/"}, {"w/src", "/"}, {"./w/src", "/"}, {"src", "/w"}, {".", "/w/src"}, {"../src", "/w/out"},
	{"/w/./src", "/cwd2"}, {"/w/out/../src", "/w"}, {"/w//src", "/"},
	{"/w/lnk", "/w"}, {"/w/lnk", "/"}, {"lnk", "/w"}, {"/cwd2/rl", "/cwd2"}, {"/cwd2/rl", "/"}, {"/w/lnk/", "/w"}, {"/w/lnk/.", "/"}, {"lnk/", "/w"},
	// from inside the directory that out-of-tree links point into: relative link texts must not be read from here
	{"../src", "/w/outside"}, {"/w/src", "/w/outside"}, {"/w/src", "/w/outside/d"},
	// through a parent directory that is a symbolic link
	{"/wl/src", "/"}, {"wl/src", "/"},
}

func lookupT(root *TNode, p string) *TNode {
	cur := root
	for _, c := range strings.Split(strings.Trim(p, "/"), "/") {
		if c == "" {
			continue
		}
		if cur == nil || cur.Kind != "dir" {
			return nil
		}
		cur = cur.Kids[c]
	}
	return cur
}

func runPackChild(c *PackCase, R string, spell spelling, failAt int) (*ChildResp, []EntrySpec) {
	resp := runChild(&ChildReq{Op: "pack", Root: R, Src: spell.src, Cwd: spell.cwd, Deref: c.Deref, Ignore: c.Ignore,
		Allow: c.Allow, Legacy: c.Legacy, History: c.History, Flags: c.Flags, FailAt: failAt}, 20*time.Second)
	var es []EntrySpec
	if resp.Crashed == "" && !resp.Timeout && len(resp.Slug) > 0 {
		es, _ = decodeSlug(resp.Slug)
	}
	return resp, es
}

func runPackChildPre(c *PackCase, R string, spell spelling, pre string) (*ChildResp, []EntrySpec) {
	resp := runChild(&ChildReq{Op: "pack", Root: R, Src: spell.src, Cwd: spell.cwd, Deref: c.Deref, Ignore: c.Ignore,
		Allow: c.Allow, History: c.History, Flags: c.Flags, FailAt: -1, PrePack: pre}, 20*time.Second)
	var es []EntrySpec
	if resp.Crashed == "" && !resp.Timeout && len(resp.Slug) > 0 {
		es, _ = decodeSlug(resp.Slug)
	}
	return resp, es
}

func entriesKey(es []EntrySpec) string {
	b, _ := json.Marshal(es)
	return string(b)
}

func runPackCase(c *PackCase, work string, rng *Rng, ignoreText string, hasOut bool) (*PackObs, []Violation) {
	R, _ := os.MkdirTemp(work, "root-")
	defer func() {
		filepath.Walk(R, func(p string, info os.FileInfo, err error) error {
			if err == nil && info.IsDir() {
				os.Chmod(p, 0o755)
			}
			return nil
		})
		os.RemoveAll(R)
	}()
	os.Chmod(R, 0o755)
	for _, k := range sortedKids(c.Init) {
		if err := materialize(c.Init.Kids[k], filepath.Join(R, k), 0); err != nil {
			return &PackObs{Crashed: "materialize: " + err.Error()}, nil
		}
		fixDirTimes(c.Init.Kids[k], filepath.Join(R, k))
	}
	before := snapshot(R)
	resp, es := runPackChild(c, R, spelling{c.Src, c.Cwd}, -1)
	obs := &PackObs{Err: resp.Err, Illegal: resp.Illegal, Panic: resp.Panic, Timeout: resp.Timeout, Crashed: resp.Crashed,
		Entries: es, Files: resp.MetaFiles, Size: resp.MetaSize, HasMeta: resp.HasMeta, SlugLen: len(resp.Slug), FlagsOut: resp.FlagsOut}
	var vs []Violation
	if resp.Panic != "" {
		vs = append(vs, viol("C19", "Pack panicked: "+resp.Panic))
	}
	if resp.Timeout {
		sig := []string{}
		vs = append(vs, viol("C19", "Pack did not return within the watchdog limit (20 s)", sig...))
		return obs, vs
	}
	if resp.Crashed != "" {
		return obs, vs
	}
	if c.ModelOnly {
		return obs, vs // serves the correspondence only: the oracles presuppose the canonical spelling of the root
	}
	srcTree := lookupT(c.Init, srcAbs)
	ok := resp.Err == ""
	// ---- C20 ----
	if ok && resp.HasMeta {
		var names []string
		var bodySum, hdrSum int64
		for _, e := range es {
			names = append(names, e.Name)
			if e.Type == "0" {
				bodySum += int64(len(e.Body))
			}
		}
		hdrSum = bodySum // decodeSlug reads exactly header.Size bytes per entry
		if strings.Join(names, "\x00") != strings.Join(resp.MetaFiles, "\x00") {
			vs = append(vs, viol("C20", fmt.Sprintf("Meta.Files %q differs from the entry names of the slug %q", resp.MetaFiles, names)))
		}
		if resp.MetaSize != bodySum || resp.MetaSize != hdrSum {
			vs = append(vs, viol("C20", fmt.Sprintf("Meta.Size = %d but the slug stores %d content bytes", resp.MetaSize, bodySum)))
		}
	}
	// ---- walk of the source tree (physical, links not followed) ----
	var all []phys
	var rec func(n *TNode, rel string)
	rec = func(n *TNode, rel string) {
		if rel != "" {
			all = append(all, phys{rel, n})
		}
		if n.Kind == "dir" {
			for _, k := range sortedKids(n) {
				r := k
				if rel != "" {
					r = rel + "/" + k
				}
				rec(n.Kids[k], r)
			}
		}
	}
	rec(srcTree, "")
	byName := map[string]EntrySpec{}
	for _, e := range es {
		byName[strings.TrimSuffix(e.Name, "/")] = e
	}
	byNameTop := map[string]bool{}
	for _, p := range all {
		byNameTop[p.rel] = true
	}
	escapingLinkInDeref := false
	reenters := false // some stored link leaves the source directory and re-enters it by name
	ref := refParse(ignoreText)
	useIgnore := c.Ignore || c.Legacy
	// a source given as a symbolic link followed by a slash (or "/.") packs as an empty slug: the first Lstat follows
	// the link, so it is not read, and the walk does not follow a root that is a link.  Another face of KF-C16-1
	// (reported under C16 below); the oracles that presuppose that the source denotes the tree are skipped.
	emptyViaLink := ok && len(es) == 0 && len(all) > 0 && (strings.Contains(c.Src, "lnk") || strings.Contains(c.Src, "rl")) &&
		(strings.HasSuffix(c.Src, "/") || strings.HasSuffix(c.Src, "/."))
	if emptyViaLink {
		vs = append(vs, Violation{Property: "C16", Signatures: []string{"source_given_by_way_of_a_symlink"},
			What: fmt.Sprintf("source %q (a symbolic link to the directory, with a trailing separator) packs as an empty slug", c.Src)})
	}
	// ---- C03 at Pack level: a file ships iff its own path is not excluded ----
	if ok && ref.ok && !emptyViaLink {
		for _, p := range all {
			if p.n.Kind == "fifo" {
				continue
			}
			ex := useIgnore && ref.excluded(p.rel)
			if p.n.Kind == "dir" && useIgnore && !ex {
				ex = ref.excluded(p.rel + "/")
			}
			_, shipped := byName[p.rel]
			derefd := false
			if p.n.Kind == "link" && c.Deref {
				derefd = true // may turn into a file, a subtree, or be skipped
			}
			if ex && shipped {
				vs = append(vs, viol("C03", fmt.Sprintf("%q is excluded by the rule file %q but appears in the slug", p.rel, ignoreText)))
			}
			if !ex && !shipped && !derefd {
				vs = append(vs, viol("C03", fmt.Sprintf("%q is not excluded by the rule file %q (ignore=%v) but is missing from the slug", p.rel, ignoreText, useIgnore)))
			}
		}
	}
	if ok && ref.ok && useIgnore {
		for _, e := range es {
			name := strings.TrimSuffix(e.Name, "/")
			if _, isTop := byNameTop[name]; isTop {
				continue // already judged above against the source tree
			}
			if ref.excluded(name) || (e.Type == "5" && ref.excluded(name+"/")) {
				vs = append(vs, viol("C03", fmt.Sprintf("archive path %q (inside a dereferenced directory) is excluded by the rule file %q but appears in the slug", name, ignoreText), "ignore_inside_dereferenced_directory"))
			}
		}
	}
	// ---- C05 ----
	inRoot := func(p string) bool { return p == srcAbs || strings.HasPrefix(p, srcAbs+"/") }
	allowed := func(abs string) bool {
		if c.Legacy {
			return false
		}
		for _, a := range c.Allow {
			if !strings.HasPrefix(a, "/") {
				a = path.Join(srcAbs, a)
			}
			if abs == a || strings.HasPrefix(abs, strings.TrimSuffix(a, "/")+"/") {
				return true
			}
		}
		return false
	}
	if ok {
		for _, e := range es {
			name := strings.TrimSuffix(e.Name, "/")
			switch e.Type {
			case "2":
				// read at its own position in the archive
				var abs string
				if strings.HasPrefix(e.Link, "/") {
					abs = path.Clean(e.Link)
				} else {
					abs = path.Clean(path.Join(srcAbs, path.Dir(name), e.Link))
					// the archive root has no name of its own: a target that climbs above it and
					// comes back through the source directory's name is outside wherever it is unpacked
					if neutral := path.Clean(path.Join("/archive-root", path.Dir(name), e.Link)); !allowed(abs) && neutral != "/archive-root" && !strings.HasPrefix(neutral, "/archive-root/") {
						if inRoot(abs) {
							reenters = true
						}
						abs = "/outside-at-archive-position" + neutral
					}
				}
				if !inRoot(abs) && !allowed(abs) {
					sig := []string{}
					if reenters {
						sig = append(sig, "link_reenters_source_directory_by_name")
					}
					if c.Deref && strings.Contains(name, "/") {
						sig = append(sig, "link_inside_dereferenced_directory")
						escapingLinkInDeref = true
					}
					vs = append(vs, viol("C05", fmt.Sprintf("slug stores link %q -> %q which, read at its own position, points outside the archive root", name, e.Link), sig...))
				}
			case "0":
				if !c.Deref {
					n := lookupT(srcTree, name)
					if n == nil || n.Kind != "file" || n.Data != e.Body {
						vs = append(vs, viol("C05", fmt.Sprintf("without dereferencing, entry %q carries data that is not the content of a regular file at that path in the source tree", name)))
					}
				}
			}
		}
	}
	if !ok && !resp.Illegal && !hasOut && !c.Risky && c.FailAt < 0 && c.Src == "/w/src" && resp.Panic == "" && !resp.Timeout && resp.Crashed == "" {
		vs = append(vs, viol("C02", "Pack refuses a tree of regular files, directories, special files and links that stay inside: "+resp.Err))
	}
	if !ok && resp.Illegal && !hasOut {
		vs = append(vs, viol("C05", "illegal-slug error for a tree whose links all stay inside the source directory: "+resp.Err))
		vs = append(vs, viol("C02", "Pack refuses (illegal slug) a tree whose links all stay inside the source directory: "+resp.Err))
	}
	if ok && !c.Deref {
		// an out-of-tree link that is visited (not ignored) must make Pack fail
		for _, p := range all {
			if p.n.Kind != "link" {
				continue
			}
			var abs string
			if strings.HasPrefix(p.n.Target, "/") {
				abs = path.Clean(p.n.Target)
			} else {
				abs = path.Clean(path.Join(srcAbs, path.Dir(p.rel), p.n.Target))
			}
			if e, shipped := byName[p.rel]; shipped && e.Type == "2" && !inRoot(abs) && !allowed(abs) {
				vs = append(vs, viol("C05", fmt.Sprintf("out-of-tree link %q -> %q stored as a link without dereferencing or allow-listing", p.rel, p.n.Target)))
			}
		}
	}
	// ---- C05 / C02: Unpack accepts what Pack produced; the tree comes back ----
	if ok && len(resp.Slug) > 0 {
		up := runChild(&ChildReq{Op: "unpack", Root: R, Dst: "/w/out", Slug: resp.Slug, FailAt: -1, Allow: c.Allow}, 20*time.Second)
		obs.Unpacked = up.Err
		relOnly := true
		for _, e := range es {
			if e.Type == "2" && strings.HasPrefix(e.Link, "/") {
				relOnly = false
			}
		}
		if up.Err != "" && relOnly {
			sig := []string{}
			for _, e := range es {
				if strings.HasPrefix(e.Name, "../") {
					sig = append(sig, "entry_named_outside_root_after_nested_dereference")
				}
			}
			if c.Deref && escapingLinkInDeref {
				// the rejection is explained by a stored link already reported above (KF-C05-1)
				sig = append(sig, "link_inside_dereferenced_directory")
			}
			if reenters {
				// likewise (KF-C05-3)
				sig = append(sig, "link_reenters_source_directory_by_name")
			}
			vs = append(vs, viol("C05", "Unpack rejects the slug Pack produced from a tree with relative links: "+up.Err, sig...))
			if !c.Deref {
				vs = append(vs, viol("C02", "Pack followed by Unpack fails: "+up.Err, sig...))
			}
		}
		if up.Err == "" && !c.Deref && !emptyViaLink {
			after := snapshot(filepath.Join(R, "w/out"))
			vs = append(vs, compareRoundTrip(srcTree, all, after, useIgnore, ref)...)
		}
	}
	// ---- nothing in the source arena is modified by Pack ----
	afterAll := snapshot(R)
	for p, b := range before {
		if strings.HasPrefix(p, "w/out") {
			continue
		}
		if a, okp := afterAll[p]; !okp || a != b {
			vs = append(vs, viol("C05", "Pack modified the file system: "+p))
			break
		}
	}
	// ---- C16: spelling / cwd / history ----
	if !c.Risky {
		base := entriesKey(es)
		for k := 0; k < 2; k++ {
			sp := spellings[rng.Intn(len(spellings))]
			c2 := *c
			if rng.Chance(50) {
				c2.History = []string{"!keep\nfoo/\n", "*.log\n"}
				c2.Flags = []bool{true, false, false}
			} else if rng.Chance(50) {
				c2.Flags = []bool{true, true, true}
			}
			r2, es2 := runPackChild(&c2, R, sp, -1)
			if r2.Timeout || r2.Crashed != "" {
				continue
			}
			if (r2.Err == "") != ok || (ok && entriesKey(es2) != base) {
				sig := []string{}
				bySymlink := func(sp2 spelling) bool {
					return strings.Contains(sp2.src, "lnk") || strings.Contains(sp2.src, "rl") || strings.Contains(sp2.src, "wl")
				}
				if bySymlink(sp) || bySymlink(spelling{c.Src, c.Cwd}) {
					sig = append(sig, "source_given_by_way_of_a_symlink")
				}
				vs = append(vs, Violation{Property: "C16", Signatures: sig, What: fmt.Sprintf("same tree, source spelled %q from cwd %q (history %v, flags %v) gives a different slug than %q from %q: err %q vs %q", sp.src, sp.cwd, c2.History, c2.Flags, c.Src, c.Cwd, r2.Err, resp.Err)})
			}
		}
	}
	// ---- C19: a source argument that is itself part of a symlink cycle must not hang Pack ----
	if rcy := runChild(&ChildReq{Op: "pack", Root: R, Src: "/w/cyc1", Cwd: "/w", Deref: c.Deref, Ignore: c.Ignore, FailAt: -1}, 15*time.Second); rcy.Timeout || rcy.Panic != "" {
		vs = append(vs, viol("C19", fmt.Sprintf("Pack of a source path that is a link in a symlink cycle (/w/cyc1 <-> /w/cyc2): timeout=%v panic=%q", rcy.Timeout, rcy.Panic)))
	}
	// ---- C16: the same Packer value used for another tree first ----
	if !c.Risky && !c.Legacy {
		c3 := *c
		pre := rng.Pick([]string{"/w/other", "/w/other/deep", "/w/other/deep"})
		r3, es3 := runPackChildPre(&c3, R, spelling{c.Src, c.Cwd}, pre)
		if r3.Crashed == "" && !r3.Timeout {
			if (r3.Err == "") != ok || (ok && entriesKey(es3) != entriesKey(es)) {
				vs = append(vs, viol("C16", fmt.Sprintf("packing %q with a Packer that packed %s before gives a different slug than with a fresh Packer (err %q vs %q)", c.Src, pre, r3.Err, resp.Err)))
			}
			if r3.Err == "" {
				// C05 does not depend on what the Packer did before either
				for _, e := range es3 {
					if e.Type != "2" || strings.HasPrefix(e.Link, "/") {
						continue
					}
					name := strings.TrimSuffix(e.Name, "/")
					abs := path.Clean(path.Join(srcAbs, path.Dir(name), e.Link))
					if !inRoot(abs) && !allowed(abs) && !(c.Deref && strings.Contains(name, "/")) {
						vs = append(vs, viol("C05", fmt.Sprintf("a Packer that packed %s before stores link %q -> %q, which points outside the source directory and is not allow-listed for it", pre, name, e.Link)))
					}
				}
			}
		}
	}
	// ---- C16: another rule file is parsed while this Pack is under way ----
	if !c.Risky && !c.Legacy && c.Ignore && rng.Chance(50) {
		text := rng.Pick([]string{"only-one-rule\n", "*.never\n", "!a\nb.txt\n"})
		r4 := runChild(&ChildReq{Op: "pack", Root: R, Src: c.Src, Cwd: c.Cwd, Deref: c.Deref, Ignore: c.Ignore,
			Allow: c.Allow, History: c.History, Flags: c.Flags, FailAt: -1, Interleave: text}, 20*time.Second)
		if r4.Crashed == "" && !r4.Timeout {
			var es4 []EntrySpec
			if len(r4.Slug) > 0 {
				es4, _ = decodeSlug(r4.Slug)
			}
			if (r4.Err == "") != ok || (ok && entriesKey(es4) != entriesKey(es)) {
				vs = append(vs, viol("C16", fmt.Sprintf("packing %q while another rule file (%q) is parsed gives a different slug (err %q vs %q)", c.Src, text, r4.Err, resp.Err)))
			}
		}
	}
	// ---- C12: writer faults ----
	if ok && len(resp.Slug) > 0 && c.FailAt >= 0 {
		off := c.FailAt % len(resp.Slug)
		r3, _ := runPackChild(c, R, spelling{c.Src, c.Cwd}, off)
		if r3.Crashed == "" && !r3.Timeout && r3.Err == "" {
			vs = append(vs, viol("C12", fmt.Sprintf("the output writer failed at byte %d of %d but Pack returned success", off, len(resp.Slug))))
			// ... and the metadata it returned describes a slug that was never written (C20)
			vs = append(vs, viol("C20", fmt.Sprintf("Pack returned metadata (%d files, %d bytes) and no error although the output writer failed at byte %d of %d: no such slug exists", len(r3.MetaFiles), r3.MetaSize, off, len(resp.Slug))))
		}
	}
	return obs, vs
}

type phys struct {
	rel string
	n   *TNode
}

// compareRoundTrip: C02 on the implementation.
func compareRoundTrip(src *TNode, all []phys, got map[string]SnapEntry, useIgnore bool, ref refRuleset) []Violation {
	var vs []Violation
	if useIgnore && !ref.ok {
		return nil
	}
	want := map[string]*TNode{}
	for _, p := range all {
		if p.n.Kind == "fifo" {
			continue
		}
		if useIgnore {
			if ref.excluded(p.rel) || (p.n.Kind == "dir" && ref.excluded(p.rel+"/")) {
				continue
			}
		}
		want[p.rel] = p.n
	}
	round := func(sec, nsec int64) int64 {
		if nsec >= 500000000 {
			return sec + 1
		}
		return sec
	}
	for rel, n := range want {
		g, ok := got[rel]
		if !ok {
			vs = append(vs, viol("C02", fmt.Sprintf("%q (%s) is in the source tree but not in the unpacked tree", rel, n.Kind)))
			continue
		}
		if g.Kind != n.Kind {
			vs = append(vs, viol("C02", fmt.Sprintf("%q comes back as %s, was %s", rel, g.Kind, n.Kind)))
			continue
		}
		switch n.Kind {
		case "file":
			sameData := g.Data == n.Data
			if len(n.Data) > 64 {
				// the snapshot keeps only a hash of files longer than 64 bytes
				hh := sha256.Sum256([]byte(n.Data))
				sameData = g.Hash == hex.EncodeToString(hh[:8])
			}
			if !sameData || g.Perm != n.Perm {
				vs = append(vs, viol("C02", fmt.Sprintf("file %q comes back with content %q (hash %s) perm %o, was %q perm %o", rel, g.Data, g.Hash, g.Perm, n.Data, n.Perm)))
			}
			if (n.Mtime != 0 || n.MtimeN != 0) && g.MtimeS != round(n.Mtime, n.MtimeN) {
				vs = append(vs, viol("C02", fmt.Sprintf("file %q comes back with mtime %d, was %d.%09d", rel, g.MtimeS, n.Mtime, n.MtimeN)))
			}
		case "dir":
			// directories that only exist implicitly (their own entry excluded) keep default metadata
			if g.Perm != n.Perm {
				vs = append(vs, viol("C02", fmt.Sprintf("directory %q comes back with perm %o, was %o", rel, g.Perm, n.Perm)))
			}
			if n.Mtime != 0 && g.MtimeS != round(n.Mtime, n.MtimeN) {
				vs = append(vs, viol("C02", fmt.Sprintf("directory %q comes back with mtime %d, was %d.%09d", rel, g.MtimeS, n.Mtime, n.MtimeN)))
			}
		case "link":
			if g.Target != n.Target {
				vs = append(vs, viol("C02", fmt.Sprintf("link %q comes back with target %q, was %q", rel, g.Target, n.Target)))
			}
		}
	}
	for rel := range got {
		if rel == "" {
			continue
		}
		if _, ok := want[rel]; !ok {
			// implicit parents of included children of an excluded directory are fine
			implicit := false
			for w := range want {
				if strings.HasPrefix(w, rel+"/") {
					implicit = true
				}
			}
			if !implicit {
				vs = append(vs, viol("C02", fmt.Sprintf("%q is in the unpacked tree but not in the (filtered) source tree", rel)))
			}
		}
	}
	return vs
}

type packDesc struct {
	Case *PackCase `json:"case"`
	Obs  *PackObs  `json:"obs"`
}

func runPackStream(o *Opts) {
	rng := NewRng(o.Seed)
	sink := NewSink(o.Out, "pack", "Corr.RunPack",
		"cases: trees under /w/src (files with perms 0400-0777 and mtimes with .0/.4/.5/.6/.999999999 s fractions, empty files and directories, long names, names with spaces / leading dot / dash, links: in-tree relative, absolute, out-of-tree, prefix sibling, chains, to directories, dangling; fifos, link cycles and self-containing external directories in the risky subset; optional .terraformignore from the rule grammar, .git/.terraform) x {dereference} x {ignore} x {legacy Pack} x allow lists x 10 spellings of the source path x working directories x parse histories / default-flag states x writer faults; each Pack runs in a chrooted child; the slug is read back with archive/tar and fed to the real Unpack; non-trivial = at least 3 entries; distinct by hash of the case",
		60)
	n := 500 * o.Scale
	if o.Tier == "thorough" {
		n = 8000 * o.Scale
	}
	if o.Focus {
		n = 5000 * o.Scale
	}
	work, _ := os.MkdirTemp("", "verif-pack-")
	defer os.RemoveAll(work)
	os.Chmod(work, 0o755)
	type job struct {
		c      *PackCase
		ignore string
		hasOut bool
		rng    *Rng
	}
	var jobs []job
	// corpus: witnesses of known findings, run first
	{
		mk := func(ignore string, extra func(src *TNode)) (*TNode, string) {
			r := NewRng(11)
			tree, _, _ := genPackTree(r, false)
			src := tdir(0o755, map[string]*TNode{"a": tfile("root-a", 0o644), "x": tlink("../outside/d")})
			if ignore != "" {
				src.Kids[".terraformignore"] = tfile(ignore, 0o644)
			}
			if extra != nil {
				extra(src)
			}
			tree.Kids["w"].Kids["src"] = src
			return tree, ignore
		}
		t1, ig1 := mk("/x/g\n", nil) // D10: archive path x/g is excluded, but inside the dereferenced directory the rule sees "g"
		jobs = append(jobs, job{&PackCase{Init: t1, Src: "/w/src", Cwd: "/", Deref: true, Ignore: true, FailAt: -1}, ig1, true, rng.Fork()})
		t2, ig2 := mk("", nil) // D11 / D19: links inside the dereferenced directory
		jobs = append(jobs, job{&PackCase{Init: t2, Src: "/w/src", Cwd: "/", Deref: true, FailAt: -1}, ig2, true, rng.Fork()})
		t3, ig3 := mk("", func(src *TNode) { delete(src.Kids, "x") }) // D9: the source given by way of a symlink
		jobs = append(jobs, job{&PackCase{Init: t3, Src: "/w/lnk", Cwd: "/", FailAt: -1}, ig3, false, rng.Fork()})
		// rule files, run on every invocation whatever the seed: a malformed line among valid rules (the valid ones stay in
		// force), every rule form once, negations that re-include below an excluded directory, the built-in rules
		for _, rf := range []string{"notes[draft.md\nsecret.txt\nlogs/\n", "secret.txt\n[\nlogs/\n", "logs/\nx.tf[\n!logs/keep\n", "/secret.txt\n", "logs/\n!logs/keep\n",
			"*.txt\n!secret.txt\n", "**/keep\n", "logs/*\n", "s?cret.txt\n", "!secret.txt\n*\n", "logs\n", "/logs/**/b.log\n", "", " \n#c\n"} {
			for _, legacy := range []bool{false, true} {
				t4, ig4 := mk(rf, func(src *TNode) {
					delete(src.Kids, "x")
					src.Kids["secret.txt"] = tfile("s", 0o600)
					src.Kids["logs"] = tdir(0o755, map[string]*TNode{"a.log": tfile("l", 0o644), "keep": tfile("k", 0o644),
						"deep": tdir(0o755, map[string]*TNode{"b.log": tfile("b", 0o644)})})
					src.Kids[".git"] = tdir(0o755, map[string]*TNode{"HEAD": tfile("ref", 0o644)})
					src.Kids[".terraform"] = tdir(0o755, map[string]*TNode{"x": tfile("x", 0o644), "modules": tdir(0o755, map[string]*TNode{"m": tfile("m", 0o644)})})
				})
				jobs = append(jobs, job{&PackCase{Init: t4, Src: "/w/src", Cwd: "/", Ignore: true, Legacy: legacy, FailAt: -1}, ig4, false, rng.Fork()})
			}
		}
	}
	// template sweep, run on every invocation whatever the seed: one link of each shape the generator knows, at the
	// top of the source directory and one level down, with and without dereferencing, with and without an allow list
	{
		inTree := []string{"a", "sub/a", "./a", "nothing", "sub", "."}
		outTree := []string{"%s..", "%s../src/..", "%s../src/a", "%s../src/sub", "%s../src-sib/secret", "%s../src-sib", "%s../outside/f", "%s../outside/d",
			"/w/src/a", "/w/outside/d", "/w/outside/f", "/secret", "%s../outside/chain", "%s../outside/back", "%s../outside/backd", "%s../other/outside/f",
			"%s../outside/hollow", "%s../oalias/f", "%s../../secret", "%s../outside/dl/../f", "%s../SRC/a", "%s../Outside/f",
			"/w/outside/d/", "/w/outside/./d", "/w/outside//d", "/w/outside/d/../d", "/w/outside/f/", "%s../outside/d/", "%s..//outside/./d"}
		for depth := 0; depth < 2; depth++ {
			up := strings.Repeat("../", depth)
			var tmpl []string
			for _, t := range inTree {
				if depth == 1 && !strings.HasPrefix(t, ".") {
					t = "../" + t
				}
				tmpl = append(tmpl, t)
			}
			nIn := len(tmpl)
			for _, t := range outTree {
				if strings.Contains(t, "%s") {
					t = fmt.Sprintf(t, up)
				}
				tmpl = append(tmpl, t)
			}
			for ti, t := range tmpl {
				for _, deref := range []bool{false, true} {
					for _, allow := range [][]string{nil, {"/w/outside"}, {"../outside/f"}, {"/w/OUTSIDE"}} {
						if allow != nil && (ti < nIn || !strings.Contains(strings.ToLower(t), "outside")) {
							continue
						}
						r := NewRng(11)
						tree, _, _ := genPackTree(r, false)
						src := tdir(0o755, map[string]*TNode{"a": tfile("root-a", 0o644), "b.txt": tfile("b", 0o600),
							"sub": tdir(0o755, map[string]*TNode{"a": tfile("sub-a", 0o644)})})
						if depth == 0 {
							src.Kids["l"] = tlink(t)
						} else {
							src.Kids["sub"].Kids["l"] = tlink(t)
						}
						tree.Kids["w"].Kids["src"] = src
						tree.Kids["w"].Kids["outside"].Kids["dl"] = tlink("../other/deep")
						tree.Kids["w"].Kids["other"].Kids["f"] = tfile("oth", 0o644)
						c := &PackCase{Init: tree, Src: "/w/src", Cwd: "/", Deref: deref, Allow: allow, FailAt: -1}
						jobs = append(jobs, job{c, "", ti >= nIn, rng.Fork()})
					}
				}
			}
		}
	}
	// files larger than any copy buffer, in the tree and behind a dereferenced link, and an ignore file that is a directory
	{
		r := NewRng(11)
		tree, _, _ := genPackTree(r, false)
		big := strings.Repeat("0123456789abcdef", 2048+1) // 32784 bytes: one byte-chunk more than 32 KiB
		src := tdir(0o755, map[string]*TNode{"a": tfile("root-a", 0o644), "big.bin": tfile(big, 0o644), "to-big": tlink("../outside/big2")})
		tree.Kids["w"].Kids["outside"].Kids["big2"] = tfile(big+big+"tail", 0o600)
		tree.Kids["w"].Kids["src"] = src
		for _, deref := range []bool{false, true} {
			jobs = append(jobs, job{&PackCase{Init: tree, Src: "/w/src", Cwd: "/", Deref: deref, FailAt: -1}, "", true, rng.Fork()})
		}
		r2 := NewRng(11)
		tree2, _, _ := genPackTree(r2, false)
		src2 := tdir(0o755, map[string]*TNode{"a": tfile("root-a", 0o644), ".terraformignore": tdir(0o755, map[string]*TNode{"x": tfile("x", 0o644)}),
			".git":       tdir(0o755, map[string]*TNode{"HEAD": tfile("ref", 0o644)}),
			".terraform": tdir(0o755, map[string]*TNode{"plugins": tfile("p", 0o644), "modules": tdir(0o755, map[string]*TNode{"m": tfile("m", 0o644)})})})
		tree2.Kids["w"].Kids["src"] = src2
		for _, legacy := range []bool{false, true} {
			jobs = append(jobs, job{&PackCase{Init: tree2, Src: "/w/src", Cwd: "/", Ignore: true, Legacy: legacy, FailAt: -1}, "", false, rng.Fork()})
		}
	}
	// the source given as a link whose (absolute) target passes through a linked parent directory, with an absolute
	// in-tree link spelled the same way: the link text is the root, no further resolution
	{
		r := NewRng(11)
		tree, _, _ := genPackTree(r, false)
		tree.Kids["w"].Kids["src"] = tdir(0o755, map[string]*TNode{"a": tfile("root-a", 0o644), "x": tlink("/wl/src/a"), "y": tlink("a")})
		tree.Kids["w"].Kids["entry"] = tlink("/wl/src")
		for _, deref := range []bool{false, true} {
			jobs = append(jobs, job{&PackCase{Init: tree, Src: "/w/entry", Cwd: "/", Deref: deref, FailAt: -1, ModelOnly: true}, "", true, rng.Fork()})
		}
	}
	// the bound on the length of a link chain that dereferencing follows: chains of 39, 40 and 41 links
	for _, k := range []int{38, 39, 40} {
		r := NewRng(11)
		tree, _, _ := genPackTree(r, false)
		src := tdir(0o755, map[string]*TNode{"a": tfile("root-a", 0o644), "l": tlink("../outside/c0")})
		for i := 0; i < k; i++ {
			t := fmt.Sprintf("c%d", i+1)
			if i == k-1 {
				t = "f"
			}
			tree.Kids["w"].Kids["outside"].Kids[fmt.Sprintf("c%d", i)] = tlink(t)
		}
		tree.Kids["w"].Kids["src"] = src
		jobs = append(jobs, job{&PackCase{Init: tree, Src: "/w/src", Cwd: "/", Deref: true, FailAt: -1}, "", true, rng.Fork()})
	}
	for i := 0; i < n; i++ {
		risky := i%12 == 11
		tree, hasOut, ign := genPackTree(rng, risky)
		sp := spellings[0]
		if rng.Chance(40) {
			sp = spellings[rng.Intn(len(spellings))]
		}
		c := &PackCase{Init: tree, Src: sp.src, Cwd: sp.cwd, Deref: rng.Chance(35), Ignore: rng.Chance(60), Risky: risky, FailAt: -1}
		c.Flags = [][]bool{{true, false, false}, {true, true, true}}[rng.Intn(2)]
		if rng.Chance(15) {
			c.Legacy = true
		}
		if rng.Chance(18) {
			c.Allow = []string{rng.Pick([]string{"/w/outside", "../outside/f", "../outside/f", "/secret", "/w/src-sib"})}
			if c.Allow[0] == "../outside/f" && rng.Chance(60) {
				// a link into what the same relative entry allows for another source directory
				tree.Kids["w"].Kids["src"].Kids["to-other"] = tlink("../other/outside/f")
				hasOut = true
			}
		}
		if rng.Chance(20) {
			c.FailAt = rng.Intn(100000)
		}
		jobs = append(jobs, job{c, ign, hasOut, rng.Fork()})
	}
	type result struct {
		j   job
		obs *PackObs
		vs  []Violation
	}
	results := make([]result, len(jobs))
	var wg sync.WaitGroup
	sem := make(chan struct{}, runtime.NumCPU())
	for i, j := range jobs {
		wg.Add(1)
		sem <- struct{}{}
		go func(i int, j job) {
			defer wg.Done()
			defer func() { <-sem }()
			obs, vs := runPackCase(j.c, work, j.rng, j.ignore, j.hasOut)
			results[i] = result{j, obs, vs}
		}(i, j)
	}
	wg.Wait()
	var notes []string
	for _, r := range results {
		db, _ := json.Marshal(r.j.c)
		h := sha256.Sum256(db)
		kind := "pack/ok"
		switch {
		case r.obs.Crashed != "":
			kind = "harness-crash"
			if len(notes) < 4 {
				notes = append(notes, "harness crash: "+r.obs.Crashed)
			}
		case r.obs.Timeout:
			kind = "pack/timeout"
		case r.obs.Illegal:
			kind = "pack/illegal-slug"
		case r.obs.Err != "":
			kind = "pack/error"
		}
		if r.j.c.Deref {
			kind += "+deref"
		}
		cs := Case{Desc: packDesc{r.j.c, r.obs}, Key: hex.EncodeToString(h[:8]), Kind: kind, Nontrivial: len(r.obs.Entries) >= 3, Viol: r.vs}
		if coq := packCaseCoq(r.j.c, r.obs); coq != "" && !o.Focus {
			cs.Coq = coq
		}
		sink.Add(cs)
	}
	sort.Strings(notes)
	sink.Close(false, notes...)
}

// packCaseCoq is filled in by stream_pack_model.go once the Gallina model of Pack exists.
var packCaseCoq = func(c *PackCase, o *PackObs) string { return "" }
