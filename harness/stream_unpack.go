package main

// Stream "unpack": runs the real slug.Unpack in a chrooted child on generated
// (hostile and well-formed) archives against generated initial trees; emits the
// decoded entry list, the initial tree and the final tree as a case for the
// Gallina model; evaluates the oracles of C01 (nothing outside dst changes),
// C04 (links left behind resolve inside dst), C15 (reference interpreter) and
// the slug half of C12 (reader faults).

import (
	"archive/tar"
	"bytes"
	"compress/gzip"
	"crypto/sha256"
	"encoding/hex"
	"encoding/json"
	"errors"
	"fmt"
	"io"
	"os"
	"os/signal"
	"path"
	"path/filepath"
	"runtime"
	"sort"
	"strings"
	"sync"
	"syscall"
	"time"

	slug "github.com/hashicorp/go-slug"
	"github.com/hashicorp/go-slug/verifhooks"
)

func init() { streams["unpack"] = runUnpackStream }

type EntrySpec struct {
	Name   string `json:"name"`
	Type   string `json:"type"` // one byte as string: 0 reg, 5 dir, 2 symlink, 1 hardlink, 6 fifo, 3 char, g global pax
	Link   string `json:"link,omitempty"`
	Mode   int64  `json:"mode"`
	Mtime  int64  `json:"mtime"`
	Body   string `json:"body,omitempty"`
	PaxRec bool   `json:"pax,omitempty"` // attach an extended PAX record to this entry
}

type UnpackCase struct {
	Reuse      bool        `json:"reuse,omitempty"`       // the Packer value has been used on another tree before
	WarmDir    string      `json:"warm_dir,omitempty"`    // ... namely this one (outside the arena)
	Allow      []string    `json:"allow,omitempty"`       // AllowSymlinkTarget entries of the Packer (relative ones are relative to dst)
	WriteLimit int         `json:"write_limit,omitempty"` // files in dst cannot grow beyond this many bytes (RLIMIT_FSIZE in the child)
	Init       *TNode      `json:"init"`                  // the whole root
	Dst        string      `json:"dst"`
	Entries    []EntrySpec `json:"entries"`
	Format     string      `json:"format"` // ustar | pax | gnu
	Uid        int         `json:"uid"`
	FailAt     int         `json:"fail_at"`
	Trunc      bool        `json:"trunc,omitempty"`
	Hostile    bool        `json:"hostile"`
}

func buildSlug(c *UnpackCase) ([]byte, error) {
	var buf bytes.Buffer
	gz := gzip.NewWriter(&buf)
	tw := tar.NewWriter(gz)
	for _, e := range c.Entries {
		h := &tar.Header{Name: e.Name, Typeflag: e.Type[0], Linkname: e.Link, Mode: e.Mode, ModTime: time.Unix(e.Mtime, 0)}
		switch c.Format {
		case "ustar":
			h.Format = tar.FormatUSTAR
		case "pax":
			h.Format = tar.FormatPAX
		case "gnu":
			h.Format = tar.FormatGNU
		}
		if e.Type == "0" {
			h.Size = int64(len(e.Body))
		}
		if e.Type == "g" {
			h.Format = tar.FormatPAX
			h.PAXRecords = map[string]string{"comment": "verif"}
			h.Name = ""
			h.Mode = 0
			h.ModTime = time.Time{}
		}
		if e.PaxRec && e.Type != "g" {
			h.Format = tar.FormatPAX
			h.PAXRecords = map[string]string{"VERIF.note": "x"}
		}
		if err := tw.WriteHeader(h); err != nil {
			// fall back to a format that can encode this header
			h.Format = tar.FormatPAX
			if err2 := tw.WriteHeader(h); err2 != nil {
				return nil, err
			}
		}
		if e.Type == "0" {
			tw.Write([]byte(e.Body))
		}
	}
	tw.Close()
	gz.Close()
	return buf.Bytes(), nil
}

// decodeSlug: what archive/tar hands to Unpack.
func decodeSlug(b []byte) ([]EntrySpec, error) {
	gz, err := gzip.NewReader(bytes.NewReader(b))
	if err != nil {
		return nil, err
	}
	tr := tar.NewReader(gz)
	var out []EntrySpec
	for {
		h, err := tr.Next()
		if err == io.EOF {
			return out, nil
		}
		if err != nil {
			return out, err
		}
		body, _ := io.ReadAll(tr)
		out = append(out, EntrySpec{Name: h.Name, Type: string([]byte{h.Typeflag}), Link: h.Linkname,
			Mode: int64(h.FileInfo().Mode().Perm()), Mtime: h.ModTime.Unix(), Body: string(body)})
	}
}

type faultReader struct {
	r      io.Reader
	n      int
	failAt int
	trunc  bool
}

func (f *faultReader) Read(p []byte) (int, error) {
	if f.failAt >= 0 && f.n >= f.failAt {
		if f.trunc {
			return 0, io.EOF
		}
		return 0, errors.New("injected read fault")
	}
	if f.failAt >= 0 && f.n+len(p) > f.failAt {
		p = p[:f.failAt-f.n]
	}
	n, err := f.r.Read(p)
	f.n += n
	return n, err
}

type faultWriter struct {
	buf     bytes.Buffer
	failAt  int
	onFirst func() // runs once, at the first Write: something else happening while Pack is at work
}

func (f *faultWriter) Write(p []byte) (int, error) {
	if f.onFirst != nil {
		g := f.onFirst
		f.onFirst = nil
		g()
	}
	if f.failAt >= 0 && f.buf.Len()+len(p) > f.failAt {
		k := f.failAt - f.buf.Len()
		if k < 0 {
			k = 0
		}
		f.buf.Write(p[:k])
		return k, errors.New("injected write fault")
	}
	return f.buf.Write(p)
}

func childMain() {
	var req ChildReq
	if err := json.NewDecoder(os.Stdin).Decode(&req); err != nil {
		childFail("bad request: " + err.Error())
	}
	// a Packer value that has been used before, on another tree (outside the arena, before
	// the chroot): what one operation learns must not leak into the next
	var warm *slug.Packer
	if req.Op == "unpack" && req.Reuse {
		warm = warmPacker(req.Allow, req.WarmDir)
	}
	enterRoot(&req)
	resp := &ChildResp{}
	func() {
		defer func() {
			if p := recover(); p != nil {
				resp.Panic = fmt.Sprint(p)
			}
		}()
		switch req.Op {
		case "build":
			childBuild(&req, resp)
		case "unpack":
			r := &faultReader{r: bytes.NewReader(req.Slug), failAt: req.FailAt, trunc: req.Trunc}
			var err error
			if req.WriteLimit > 0 {
				// the destination runs out of room: writes beyond this many bytes per file fail (EFBIG)
				signal.Ignore(syscall.SIGXFSZ)
				lim := syscall.Rlimit{Cur: uint64(req.WriteLimit), Max: uint64(req.WriteLimit)}
				if e := syscall.Setrlimit(syscall.RLIMIT_FSIZE, &lim); e != nil {
					childFail("setrlimit: " + e.Error())
				}
			}
			if warm != nil {
				err = warm.Unpack(r, req.Dst)
			} else if len(req.Allow) > 0 {
				var opts []slug.PackerOption
				for _, a := range req.Allow {
					opts = append(opts, slug.AllowSymlinkTarget(a))
				}
				p, _ := slug.NewPacker(opts...)
				err = p.Unpack(r, req.Dst)
			} else {
				err = slug.Unpack(r, req.Dst)
			}
			if err != nil {
				resp.Err = err.Error()
				var ill *slug.IllegalSlugError
				resp.Illegal = errors.As(err, &ill)
			}
		case "pack":
			if req.Flags != nil {
				verifhooks.SetDefaultFlags(req.Flags)
			}
			for _, h := range req.History {
				verifhooks.ParseIgnoreFileContent(strings.NewReader(h))
			}
			w := &faultWriter{failAt: req.FailAt}
			if req.Interleave != "" {
				// another rule file is parsed while this Pack is under way (as a concurrent Pack would do)
				text := req.Interleave
				w.onFirst = func() { verifhooks.ParseIgnoreFileContent(strings.NewReader(text)) }
			}
			var meta *slug.Meta
			var err error
			if req.Legacy {
				meta, err = slug.Pack(req.Src, w, req.Deref)
			} else {
				var opts []slug.PackerOption
				if req.Deref {
					opts = append(opts, slug.DereferenceSymlinks())
				}
				if req.Ignore {
					opts = append(opts, slug.ApplyTerraformIgnore())
				}
				for _, a := range req.Allow {
					opts = append(opts, slug.AllowSymlinkTarget(a))
				}
				p, _ := slug.NewPacker(opts...)
				if req.PrePack != "" {
					p.Pack(req.PrePack, io.Discard)
				}
				meta, err = p.Pack(req.Src, w)
			}
			resp.Slug = w.buf.Bytes()
			if err != nil {
				resp.Err = err.Error()
				var ill *slug.IllegalSlugError
				resp.Illegal = errors.As(err, &ill)
			}
			if meta != nil {
				resp.HasMeta = true
				resp.MetaFiles = meta.Files
				resp.MetaSize = meta.Size
			}
			resp.FlagsOut = verifhooks.DefaultFlags()
		}
	}()
	b, _ := json.Marshal(resp)
	os.Stdout.Write(b)
}

// warmPacker returns a Packer that has already unpacked a small slug with in-tree links
// into a scratch directory and packed that directory again.
func warmPacker(allow []string, dir string) *slug.Packer {
	var opts []slug.PackerOption
	for _, a := range allow {
		opts = append(opts, slug.AllowSymlinkTarget(a))
	}
	p, err := slug.NewPacker(opts...)
	if err != nil {
		childFail("warm packer: " + err.Error())
	}
	if dir == "" {
		dir, err = os.MkdirTemp("", "verif-warm-")
	} else {
		err = os.MkdirAll(dir, 0o755)
	}
	if err != nil {
		childFail("warm packer: " + err.Error())
	}
	defer os.RemoveAll(dir)
	var buf bytes.Buffer
	gz := gzip.NewWriter(&buf)
	tw := tar.NewWriter(gz)
	tw.WriteHeader(&tar.Header{Name: "d/", Typeflag: tar.TypeDir, Mode: 0o755})
	tw.WriteHeader(&tar.Header{Name: "d/f", Typeflag: tar.TypeReg, Mode: 0o644, Size: 1})
	tw.Write([]byte("x"))
	tw.WriteHeader(&tar.Header{Name: "l", Typeflag: tar.TypeSymlink, Linkname: "d/f", Mode: 0o777})
	tw.WriteHeader(&tar.Header{Name: "d/up", Typeflag: tar.TypeSymlink, Linkname: "../l", Mode: 0o777})
	tw.Close()
	gz.Close()
	if err := p.Unpack(&buf, dir); err != nil {
		childFail("warm packer: unpack: " + err.Error())
	}
	if _, err := p.Pack(dir, io.Discard); err != nil {
		childFail("warm packer: pack: " + err.Error())
	}
	return p
}

// ---------- generators ----------

var hostileNames = []string{"nx/../l2/evil", "/l", "/a/l", "/a/b/l2", "a\\b", "..\\x", "t", "a/b/t", "s/a", "d", "s", "a", "b", "a/x", "a/b/y", "l", "l/x", "l2", "l2/x", "../dst-evil/x", "../victim", "nx/../l/x", "nx/../../victim",
	"/a", "a/", "./a", "a//x", ".", "", "..", "/", "//", "///", "/.", "a/../b", "a/../../dst-evil/x", "l/../x", "b/", "/l/x", "x"}
var hostileTargets = []string{"../DST/a", "../../w/DST/a", "../Dst", "l/..", "l2/..", "../w/dst/a", "../../w/dst/a", "../w/dst/../victim", "../..", "s/a/..", "a/b/t/..", "../../etc/cfg", "a", "b", ".", "..", "a/..", "../dst-evil", "../victim", "a/../victim", "/w/victim", "/secret", "l", "l2", "a/b", "../dst", "../dst/a", "nx", "./b", "a/../../dst-evil", "../dst-evil/x"}

func genHostileEntries(rng *Rng) []EntrySpec {
	if rng.Chance(35) {
		return genHostileTemplate(rng)
	}
	n := 1 + rng.Intn(4)
	var es []EntrySpec
	for i := 0; i < n; i++ {
		e := EntrySpec{Name: rng.Pick(hostileNames), Mode: int64([]int{0o644, 0o755, 0o600, 0o444, 0o777}[rng.Intn(5)]), Mtime: 1000000000 + int64(rng.Intn(1000))}
		if rng.Chance(12) {
			// file-type bits in the numeric mode field that contradict the type flag (S_IFLNK, S_IFDIR, S_IFIFO, S_IFREG)
			e.Mode |= int64([]int{0o120000, 0o040000, 0o010000, 0o100000}[rng.Intn(4)])
		}
		switch k := rng.Intn(10); {
		case k < 4:
			e.Type = "0"
			e.Body = fmt.Sprintf("body%d", rng.Intn(100))
		case k < 6:
			e.Type = "5"
		case k < 9:
			e.Type = "2"
			e.Link = rng.Pick(hostileTargets)
		default:
			e.Type = rng.Pick([]string{"1", "6", "3", "g"})
			if e.Type == "1" {
				e.Link = rng.Pick(hostileTargets)
			}
		}
		if e.Type != "5" && strings.HasSuffix(e.Name, "/") && e.Name != "/" {
			e.Name = strings.TrimSuffix(e.Name, "/")
		}
		es = append(es, e)
	}
	return es
}

// genHostileTemplate: cooperating entries - a link, something else of some name,
// then that name again as another kind or a link reached through the first link.
func genHostileTemplate(rng *Rng) []EntrySpec {
	mode := func() int64 { return int64([]int{0o644, 0o755, 0o777, 0o700}[rng.Intn(4)]) }
	mk := func(name, typ, link string) EntrySpec {
		e := EntrySpec{Name: name, Type: typ, Link: link, Mode: mode(), Mtime: 1000000000 + int64(rng.Intn(1000))}
		if typ == "0" {
			e.Body = fmt.Sprintf("tb%d", rng.Intn(100))
		}
		return e
	}
	if rng.Chance(12) {
		// a link entry whose name starts with a slash: judged where it is created, not at "/"
		es := []EntrySpec{mk("/"+rng.Pick([]string{"l", "a/l", "a/b/l"}), "2", rng.Pick([]string{"../w/dst/a", "../w/dst/../victim", "../../w/dst/a", "../w/victim"}))}
		if rng.Chance(40) {
			es = append(es, mk(strings.TrimPrefix(es[0].Name, "/")+"/x", "0", ""))
		}
		return es
	}
	if rng.Chance(8) {
		// an empty directory (queued for the deferred restore), then a link of the same name that leads out through a second link
		return []EntrySpec{mk("a/up", "2", ".."), mk("d/", "5", ""), mk("d", "2", "a/up/..")}
	}
	if rng.Chance(8) {
		// a link that leads out (through a second link), then a regular entry of the same name whose mode field says "symlink"
		es := []EntrySpec{mk("a/up", "2", ".."), mk("l", "2", "a/up/../victim"), mk("l", "0", "")}
		es[2].Mode |= 0o120000
		return es
	}
	if rng.Chance(15) {
		// two links that are each lexically inside and together lead out of dst, then an entry whose
		// raw name starts with a component that does not exist and a ".."
		es := []EntrySpec{mk("l", "2", "."), mk("l2", "2", "l/.."), mk(rng.Pick([]string{"nx/../l2/evil", "nx/../l2/a/evil", "l2/evil"}), "0", "")}
		if rng.Chance(30) {
			es = append([]EntrySpec{mk("nx/", "5", "")}, es...)
		}
		return es
	}
	if rng.Chance(25) {
		// the same target text at two depths, the deeper (harmless) one first
		t := rng.Pick([]string{"../..", "../../etc/cfg", "../../dst-evil", "../../victim"})
		es := []EntrySpec{mk(rng.Pick([]string{"a/b/t", "s/a/t"}), "2", t), mk(rng.Pick([]string{"t", "a/cfg", "x"}), "2", t)}
		if rng.Chance(30) {
			es = append(es, mk("t/w", "0", ""))
		}
		return es
	}
	if rng.Chance(20) {
		// an entry spelled through an accepted link: the raw name and the cleaned name part ways
		d := rng.Pick([]string{"s", "a/b"})
		up := d + "/up"
		es := []EntrySpec{mk(d+"/", "5", ""), mk(up, "2", rng.Pick([]string{"..", "../.."})),
			mk(up+"/../"+rng.Pick([]string{"escaped", "victim", "../victim"}), rng.Pick([]string{"0", "5", "2"}), "../..")}
		if rng.Chance(40) {
			es = append(es, mk(up+"/../x/y", "0", ""))
		}
		return es
	}
	if rng.Chance(20) {
		// a link to the directory itself (or up and back), a real directory at its target, and an
		// entry named through the link into that directory
		lks := [][2]string{{"a", "."}, {"x/y/a", "../.."}, {"l", "s/.."}}
		lk := lks[rng.Intn(len(lks))]
		es := []EntrySpec{mk("sub/", "5", ""), mk(lk[0], "2", lk[1]), mk(lk[0]+"/sub/l", rng.Pick([]string{"2", "2", "0"}), rng.Pick([]string{"../..", "../../victim"}))}
		switch rng.Intn(3) {
		case 0:
			es[0], es[1] = es[1], es[0]
		case 1:
			es = append(es[1:2], es[0], es[2])
		}
		return es
	}
	l1 := rng.Pick([]string{"a", "s/a", "l", "a/b/t"})
	t1 := rng.Pick([]string{".", "..", "../..", "a/..", "../dst-evil", "s/.."})
	n2 := rng.Pick([]string{"b", "d", "t", "x"})
	kinds := []string{"0", "5", "2"}
	k2 := rng.Pick(kinds)
	k3 := rng.Pick(kinds)
	t3 := rng.Pick([]string{l1 + "/..", l1 + "/../victim", l1 + "/../..", t1, "../..", l1})
	es := []EntrySpec{mk(l1, "2", t1), mk(n2, k2, rng.Pick(hostileTargets)), mk(n2, k3, t3)}
	if rng.Chance(40) {
		es = append(es, mk(n2+"/inner", rng.Pick(kinds), t3))
	}
	if rng.Chance(30) {
		es[0], es[1] = es[1], es[0]
	}
	return es
}

var goodNames = []string{"b\\c", "a/w\\x", "..data", "...", "..hidden/f", "a", "b", "c.txt", "d", "a/x", "a/y.tf", "a/b", "a/b/z", "d/e", "d/e/f", "sp ace", "-dash", ".hidden", "ünï", "d/l"}

func genGoodEntries(rng *Rng) []EntrySpec {
	n := 1 + rng.Intn(7)
	var es []EntrySpec
	for i := 0; i < n; i++ {
		name := rng.Pick(goodNames)
		if rng.Chance(5) {
			name = strings.Repeat("long", 30) + "/" + name
		}
		e := EntrySpec{Name: name, Mode: int64([]int{0o644, 0o755, 0o600, 0o444, 0o400, 0o555, 0o777, 0o000}[rng.Intn(8)]), Mtime: 1000000000 + int64(rng.Intn(100000))}
		switch k := rng.Intn(10); {
		case k < 5:
			e.Type = "0"
			e.Body = fmt.Sprintf("content-%d", rng.Intn(1000))
			if rng.Chance(10) {
				e.Body = ""
			}
		case k < 8:
			e.Type = "5"
			e.Name += "/"
		default:
			e.Type = "2"
			// an in-tree relative target, computed from the entry's own depth
			depth := strings.Count(name, "/")
			e.Link = strings.Repeat("../", depth) + rng.Pick([]string{"a", "b", "c.txt", "a/x", "d/e", "nothing"})
			if depth == 0 {
				e.Link = rng.Pick([]string{"a", "b", "c.txt", "a/x", "d/e", "nothing", "./a"})
			}
		}
		if rng.Chance(10) {
			e.Name = "./" + e.Name
		} else if rng.Chance(8) {
			e.Name = "/" + e.Name
		}
		if rng.Chance(8) {
			e.PaxRec = true
		}
		es = append(es, e)
	}
	if rng.Chance(10) {
		es = append([]EntrySpec{{Type: "g"}}, es...)
	}
	if rng.Chance(6) {
		es = append(es, EntrySpec{Name: "hl", Type: rng.Pick([]string{"1", "6", "3"}), Link: "a", Mode: 0o644, Mtime: 1000000000})
	}
	return es
}

func genInitTree(rng *Rng, hostile bool) *TNode {
	dst := tdir(0o755, nil)
	switch rng.Intn(4) {
	case 1:
		dst.Kids["a"] = tdir(0o755, map[string]*TNode{"old": tfile("old", 0o644)})
		dst.Kids["b"] = tfile("ro", 0o444)
	case 2:
		if hostile {
			dst.Kids["pl"] = tlink("../victim")
			dst.Kids["l2"] = tlink("../dst-evil")
		} else {
			dst.Kids["c.txt"] = tfile("previous", 0o400)
		}
	case 3:
		dst.Kids["a"] = tdir(0o755, nil)
	}
	w := tdir(0o755, map[string]*TNode{
		"dst":      dst,
		"dst-evil": tdir(0o755, map[string]*TNode{"x": tfile("evil-x", 0o644)}),
		"victim":   tfile("victim", 0o644),
		"outside":  tdir(0o755, map[string]*TNode{"f": tfile("outside-f", 0o600)}),
	})
	return tdir(0o755, map[string]*TNode{"w": w, "secret": tfile("secret", 0o600)})
}

// updownTarget: no ".." after a name (".." first, then names; "." and empty segments anywhere)
func updownTarget(t string) bool {
	seenName := false
	for _, c := range strings.Split(t, "/") {
		switch c {
		case "", ".":
		case "..":
			if seenName {
				return false
			}
		default:
			seenName = true
		}
	}
	return true
}

// ---------- physical resolution inside the arena (for C04) ----------

// resolveIn follows path (relative to the chroot root, given as components
// starting at cur) the way the kernel would with R as "/"; past the first
// missing component it continues lexically. Returns the physical components.
func resolveIn(R string, cur []string, todo []string, links int, onLink func(rel string)) ([]string, bool) {
	for len(todo) > 0 {
		c := todo[0]
		todo = todo[1:]
		switch c {
		case "", ".":
			continue
		case "..":
			if len(cur) > 0 {
				cur = cur[:len(cur)-1]
			}
			continue
		}
		p := filepath.Join(append([]string{R}, append(append([]string{}, cur...), c)...)...)
		fi, err := os.Lstat(p)
		if err != nil {
			// missing: continue lexically
			cur = append(append([]string{}, cur...), c)
			for _, r := range todo {
				switch r {
				case "", ".":
				case "..":
					if len(cur) > 0 {
						cur = cur[:len(cur)-1]
					}
				default:
					cur = append(cur, r)
				}
			}
			return cur, true
		}
		if fi.Mode()&os.ModeSymlink != 0 {
			if links == 0 {
				return nil, false
			}
			t, _ := os.Readlink(p)
			if onLink != nil {
				onLink(strings.Join(append(append([]string{}, cur...), c), "/"))
			}
			nt := append(strings.Split(t, "/"), todo...)
			if strings.HasPrefix(t, "/") {
				return resolveIn(R, nil, nt, links-1, onLink)
			}
			return resolveIn(R, cur, nt, links-1, onLink)
		}
		cur = append(append([]string{}, cur...), c)
	}
	return cur, true
}

func underPath(p []string, base []string) bool {
	if len(p) < len(base) {
		return false
	}
	for i := range base {
		if p[i] != base[i] {
			return false
		}
	}
	return true
}

// ---------- reference interpreter (C15) ----------

type refNode struct {
	kind   string // file dir link
	data   string
	perm   uint32
	mtime  int64
	hasMt  bool
	target string
}

// refUnpack: sequential reading of a well-formed archive. ok=false when the
// archive is outside what the reference defines (type conflicts, hostile names).
func refUnpack(init map[string]SnapEntry, dstRel string, es []EntrySpec) (map[string]*refNode, bool, bool) {
	tree := map[string]*refNode{}
	for p, e := range init {
		if p == dstRel || strings.HasPrefix(p, dstRel+"/") {
			rel := strings.TrimPrefix(strings.TrimPrefix(p, dstRel), "/")
			n := &refNode{kind: e.Kind, perm: e.Perm, mtime: e.MtimeS, hasMt: true, target: e.Target, data: e.Data}
			if e.Kind == "dir" {
				n.hasMt = false
			}
			tree[rel] = n
		}
	}
	mustFail := false
	type dirRestore struct {
		p     string
		perm  uint32
		mtime int64
	}
	var restores []dirRestore
	ensureParents := func(rel string) bool {
		parts := strings.Split(rel, "/")
		for i := 1; i < len(parts); i++ {
			pp := strings.Join(parts[:i], "/")
			n, ok := tree[pp]
			if !ok {
				tree[pp] = &refNode{kind: "dir", perm: 0o755}
				continue
			}
			if n.kind != "dir" {
				return false
			}
			n.hasMt = false
		}
		if d, ok := tree[""]; ok {
			d.hasMt = false
		}
		return true
	}
	for _, e := range es {
		if e.Name == "" {
			continue
		}
		switch e.Type {
		case "g", "x":
			continue
		case "0", "5", "2", "\x00":
		default:
			mustFail = true
			return tree, true, mustFail
		}
		name := strings.TrimPrefix(e.Name, "/")
		rel := path.Clean(name)
		if rel == "." || rel == ".." || strings.HasPrefix(rel, "../") {
			return nil, false, false
		}
		if !ensureParents(rel) {
			return nil, false, false
		}
		switch e.Type {
		case "0", "\x00":
			if n, ok := tree[rel]; ok && n.kind != "file" {
				return nil, false, false
			}
			tree[rel] = &refNode{kind: "file", data: e.Body, perm: uint32(e.Mode) & 0o777, mtime: e.Mtime, hasMt: true}
		case "5":
			if n, ok := tree[rel]; ok && n.kind != "dir" {
				return nil, false, false
			}
			if _, ok := tree[rel]; !ok {
				tree[rel] = &refNode{kind: "dir", perm: 0o755}
			}
			restores = append(restores, dirRestore{rel, uint32(e.Mode) & 0o777, e.Mtime})
		case "2":
			if _, ok := tree[rel]; ok {
				return nil, false, false // link onto an existing path: the reference does not define it
			}
			tree[rel] = &refNode{kind: "link", target: e.Link}
		}
	}
	for _, r := range restores {
		if n, ok := tree[r.p]; ok && n.kind == "dir" {
			n.perm, n.mtime, n.hasMt = r.perm, r.mtime, true
		}
	}
	return tree, true, mustFail
}

// ---------- Coq emission ----------

func coqNode(n *TNode) string {
	switch n.Kind {
	case "file":
		return fmt.Sprintf("(File %s %d%%N %s)", coqStr(n.Data), n.Perm, coqMtimeOf(n))
	case "dir":
		var ks []string
		for _, k := range sortedKids(n) {
			ks = append(ks, "("+coqStr(k)+", "+coqNode(n.Kids[k])+")")
		}
		return fmt.Sprintf("(Dir %d%%N %s %s)", n.Perm, coqMtimeOf(n), coqList(ks))
	case "link":
		return "(Link " + coqStr(n.Target) + ")"
	}
	return "(Special 1%N)"
}

func coqMtimeOf(n *TNode) string {
	if n.MtimeSet {
		return fmt.Sprintf("(Some (%d)%%Z)", n.Mtime*1000000000+n.MtimeN)
	}
	return coqMtime(n.Mtime, n.MtimeN)
}

// model times are nanoseconds since the epoch; (0, 0) = not set / kernel-set
func coqMtime(sec, nsec int64) string {
	if sec == 0 && nsec == 0 {
		return "None"
	}
	return fmt.Sprintf("(Some (%d)%%Z)", sec*1000000000+nsec)
}

// snapToTree rebuilds a TNode tree from a snapshot; mtimes of nodes whose mtime
// is kernel-set are still recorded (the model says which ones it predicts).
func snapToTree(s map[string]SnapEntry) *TNode {
	root := &TNode{Kind: "dir", Kids: map[string]*TNode{}}
	keys := make([]string, 0, len(s))
	for k := range s {
		keys = append(keys, k)
	}
	sort.Strings(keys)
	for _, k := range keys {
		e := s[k]
		n := &TNode{Kind: e.Kind, Perm: e.Perm, Mtime: e.MtimeS, MtimeN: e.MtimeN, MtimeSet: true, Target: e.Target, Data: e.Data}
		if e.Kind == "special" {
			n.Kind = "fifo"
		}
		if e.Kind == "file" && e.Data == "" && e.Size > 0 {
			n.Data = "#" + e.Hash
		}
		if e.Kind == "dir" {
			n.Kids = map[string]*TNode{}
		}
		if k == "" {
			*root = *n
			continue
		}
		parts := strings.Split(k, "/")
		cur := root
		for _, p := range parts[:len(parts)-1] {
			cur = cur.Kids[p]
		}
		cur.Kids[parts[len(parts)-1]] = n
	}
	return root
}

func coqEntries(es []EntrySpec) string {
	var out []string
	for _, e := range es {
		out = append(out, fmt.Sprintf("mkEntry %s %d%%N %s %d%%N (%d)%%Z %s", coqStr(e.Name), e.Type[0], coqStr(e.Link), e.Mode&0o777, e.Mtime, coqStr(e.Body)))
	}
	return coqList(out)
}

// ---------- running one case ----------

type UnpackObs struct {
	Err      string               `json:"err,omitempty"`
	Illegal  bool                 `json:"illegal,omitempty"`
	Panic    string               `json:"panic,omitempty"`
	Timeout  bool                 `json:"timeout,omitempty"`
	Crashed  string               `json:"crashed,omitempty"`
	Decoded  []EntrySpec          `json:"decoded"`
	After    map[string]SnapEntry `json:"-"`
	Before   map[string]SnapEntry `json:"-"`
	DiffOut  []string             `json:"diff_outside,omitempty"`
	FinalDst map[string]SnapEntry `json:"final_dst,omitempty"`
}

func runUnpackCase(c *UnpackCase, work string) (*UnpackObs, []Violation) {
	R, _ := os.MkdirTemp(work, "root-")
	defer func() {
		// directories may have been made unwritable
		filepath.Walk(R, func(p string, info os.FileInfo, err error) error {
			if err == nil && info.IsDir() {
				os.Chmod(p, 0o755)
			}
			return nil
		})
		os.RemoveAll(R)
	}()
	os.Chmod(R, 0o755)
	for _, k := range sortedKids(c.Init) {
		if err := materialize(c.Init.Kids[k], filepath.Join(R, k), c.Uid); err != nil {
			return &UnpackObs{Crashed: "materialize: " + err.Error()}, nil
		}
	}
	if c.Uid != 0 {
		os.Lchown(R, c.Uid, c.Uid)
	}
	slugBytes, err := buildSlug(c)
	if err != nil {
		return &UnpackObs{Crashed: "buildSlug: " + err.Error()}, nil
	}
	obs := &UnpackObs{}
	obs.Decoded, _ = decodeSlug(slugBytes)
	obs.Before = snapshot(R)
	resp := runChild(&ChildReq{Op: "unpack", Root: R, Uid: c.Uid, Dst: c.Dst, Slug: slugBytes, FailAt: c.FailAt, Trunc: c.Trunc, Reuse: c.Reuse, WarmDir: c.WarmDir, Allow: c.Allow, WriteLimit: c.WriteLimit}, 20*time.Second)
	obs.After = snapshot(R)
	obs.Err, obs.Illegal, obs.Panic, obs.Timeout, obs.Crashed = resp.Err, resp.Illegal, resp.Panic, resp.Timeout, resp.Crashed
	var vs []Violation
	if resp.Panic != "" {
		vs = append(vs, viol("C19", "Unpack panicked: "+resp.Panic))
	}
	if resp.Timeout {
		vs = append(vs, viol("C19", "Unpack did not return within the watchdog limit"))
	}
	if resp.Crashed != "" {
		return obs, vs
	}
	dstRel := strings.TrimPrefix(c.Dst, "/")
	inDst := func(p string) bool { return p == dstRel || strings.HasPrefix(p, dstRel+"/") }
	// ---- C01: nothing outside dst changes ----
	for p, b := range obs.Before {
		if inDst(p) {
			continue
		}
		a, ok := obs.After[p]
		if !ok {
			obs.DiffOut = append(obs.DiffOut, "removed "+p)
		} else if a != b {
			obs.DiffOut = append(obs.DiffOut, fmt.Sprintf("changed %s: %+v -> %+v", p, b, a))
		}
	}
	for p := range obs.After {
		if !inDst(p) {
			if _, ok := obs.Before[p]; !ok {
				obs.DiffOut = append(obs.DiffOut, "created "+p)
			}
		}
	}
	sort.Strings(obs.DiffOut)
	if len(obs.DiffOut) > 0 {
		vs = append(vs, viol("C01", fmt.Sprintf("Unpack into %s changed the file system outside the destination: %s", c.Dst, strings.Join(obs.DiffOut, "; "))))
	}
	// ---- C04: links left by Unpack resolve inside dst ----
	dstComps := strings.Split(dstRel, "/")
	for p, a := range obs.After {
		if a.Kind != "link" || !inDst(p) {
			continue
		}
		if b, ok := obs.Before[p]; ok && b.Ino == a.Ino {
			continue // pre-existing link, not left by Unpack
		}
		comps := strings.Split(p, "/")
		viaOld := false
		onLink := func(rel string) {
			if b, ok := obs.Before[rel]; ok && b.Kind == "link" && b.Ino == obs.After[rel].Ino {
				viaOld = true // passes through a link that was in dst before Unpack ran
			}
		}
		phys, ok := resolveIn(R, comps[:len(comps)-1], strings.Split(a.Target, "/"), 40, onLink)
		if strings.HasPrefix(a.Target, "/") {
			phys, ok = resolveIn(R, nil, strings.Split(a.Target, "/"), 40, onLink)
		}
		if !ok || viaOld {
			continue // a loop resolves nowhere; escapes through pre-existing links are not Unpack's doing
		}
		if !underPath(phys, dstComps) {
			// a target the caller allow-listed (exactly, or below an allow-listed directory; relative entries count from dst) may lie outside
			lexAbs := path.Clean(path.Join(path.Dir("/"+p), a.Target))
			if strings.HasPrefix(a.Target, "/") {
				lexAbs = path.Clean(a.Target)
			}
			okAllowed := false
			for _, al := range c.Allow {
				pre := al
				if !strings.HasPrefix(pre, "/") {
					pre = path.Join(c.Dst, pre)
				}
				if lexAbs == pre || strings.HasPrefix(lexAbs, strings.TrimSuffix(pre, "/")+"/") {
					okAllowed = true
				}
				// ... or the place it leads to is allow-listed (reached through an allow-listed link)
				physAbs := "/" + strings.Join(phys, "/")
				if physAbs == strings.TrimSuffix(pre, "/") || strings.HasPrefix(physAbs, strings.TrimSuffix(pre, "/")+"/") {
					okAllowed = true
				}
			}
			if okAllowed {
				continue
			}
			sig := []string{}
			// signature of the known finding: lexically inside, physically outside through another link
			lex := path.Clean(path.Join(path.Dir("/"+p), a.Target))
			// ... which needs a link target with ".." after a name: for archives without one, containment is a
			// theorem of the model (C04_links_resolve_inside), so an escape there is never the known finding
			dotdotAfterName := false
			for _, e := range c.Entries {
				if e.Type == "2" && !updownTarget(e.Link) {
					dotdotAfterName = true
				}
			}
			if dotdotAfterName && !strings.HasPrefix(a.Target, "/") && (lex == "/"+dstRel || strings.HasPrefix(lex, "/"+dstRel+"/")) {
				sig = append(sig, "link_escapes_only_through_another_link")
			}
			vs = append(vs, viol("C04", fmt.Sprintf("after Unpack, link %s -> %q resolves to /%s, outside the destination %s", p, a.Target, strings.Join(phys, "/"), c.Dst), sig...))
		}
	}
	// ---- C12 (destination half): a write that cannot be completed is reported ----
	if c.WriteLimit > 0 {
		for _, e := range obs.Decoded {
			if (e.Type == "0" || e.Type == "\x00") && len(e.Body) > c.WriteLimit && resp.Err == "" {
				vs = append(vs, viol("C12", fmt.Sprintf("the destination could not hold %q (%d bytes, file size limit %d) but Unpack returned success", e.Name, len(e.Body), c.WriteLimit)))
				break
			}
		}
	}
	// ---- C15: reference interpreter (well-formed archives, no read fault) ----
	obs.FinalDst = map[string]SnapEntry{}
	for p, a := range obs.After {
		if inDst(p) {
			obs.FinalDst[strings.TrimPrefix(strings.TrimPrefix(p, dstRel), "/")] = a
		}
	}
	if !c.Hostile && c.FailAt < 0 && c.WriteLimit == 0 {
		want, defined, mustFail := refUnpack(obs.Before, dstRel, obs.Decoded)
		if defined && mustFail && resp.Err == "" {
			vs = append(vs, viol("C15", "archive contains an entry of an unsupported type (hard link, device, fifo) but Unpack reported success"))
		}
		if defined && !mustFail {
			if resp.Err != "" {
				vs = append(vs, viol("C15", "well-formed archive rejected: "+resp.Err))
				vs = append(vs, viol("C02", "well-formed archive rejected: "+resp.Err))
			} else {
				vs = append(vs, compareRef(want, obs.FinalDst)...)
			}
		}
	}
	// ---- C12: an Unpack that returns success has materialised every entry (the last one for each path) ----
	if resp.Err == "" && !c.Hostile && c.FailAt < 0 && c.WriteLimit == 0 {
		last := map[string]int{}
		clean := func(n string) string { return strings.Trim(path.Clean("/"+n), "/") }
		for i, e := range obs.Decoded {
			last[clean(e.Name)] = i
		}
		for i, e := range obs.Decoded {
			p := clean(e.Name)
			if p == "" || last[p] != i {
				continue
			}
			g, ok := obs.FinalDst[p]
			switch e.Type {
			case "2":
				if !ok || g.Kind != "link" || g.Target != e.Link {
					vs = append(vs, viol("C12", fmt.Sprintf("Unpack returned success but the link entry %q -> %q was not materialised (found %v)", e.Name, e.Link, g)))
				}
			case "0", "\x00":
				if !ok || g.Kind != "file" {
					vs = append(vs, viol("C12", fmt.Sprintf("Unpack returned success but the file entry %q was not materialised (found %v)", e.Name, g)))
				}
			}
		}
	}
	// ---- C12 (slug half): a read fault is reported, or the extraction is complete ----
	if c.FailAt >= 0 && resp.Err == "" && !c.Hostile {
		want, defined, mustFail := refUnpack(obs.Before, dstRel, obs.Decoded)
		if defined && !mustFail && len(compareRef(want, obs.FinalDst)) > 0 {
			vs = append(vs, viol("C12", fmt.Sprintf("reader fault at byte %d (truncate=%v): Unpack returned success but the destination does not hold the whole archive", c.FailAt, c.Trunc)))
		}
	}
	return obs, vs
}

func compareRef(want map[string]*refNode, got map[string]SnapEntry) []Violation {
	var vs []Violation
	for p, w := range want {
		g, ok := got[p]
		if !ok {
			sig := []string{}
			vs = append(vs, viol("C15", fmt.Sprintf("%q (%s) prescribed by the archive is missing from the destination", p, w.kind), sig...))
			continue
		}
		if g.Kind != w.kind {
			vs = append(vs, viol("C15", fmt.Sprintf("%q is a %s, archive prescribes %s", p, g.Kind, w.kind)))
			continue
		}
		switch w.kind {
		case "file":
			if g.Data != w.data && len(w.data) <= 64 {
				vs = append(vs, viol("C15", fmt.Sprintf("%q has content %q, archive prescribes %q", p, g.Data, w.data)))
			}
			if g.Perm != w.perm {
				vs = append(vs, viol("C15", fmt.Sprintf("%q has permissions %o, archive prescribes %o", p, g.Perm, w.perm)))
			}
			if w.hasMt && g.MtimeS != w.mtime {
				vs = append(vs, viol("C15", fmt.Sprintf("%q has mtime %d, archive prescribes %d", p, g.MtimeS, w.mtime)))
			}
		case "dir":
			if w.hasMt && (g.Perm != w.perm || g.MtimeS != w.mtime) {
				vs = append(vs, viol("C15", fmt.Sprintf("directory %q has perm %o mtime %d, archive prescribes %o / %d (applied after its contents)", p, g.Perm, g.MtimeS, w.perm, w.mtime)))
			}
		case "link":
			if g.Target != w.target {
				vs = append(vs, viol("C15", fmt.Sprintf("link %q has target %q, archive prescribes %q", p, g.Target, w.target)))
			}
		}
	}
	for p := range got {
		if _, ok := want[p]; !ok {
			vs = append(vs, viol("C15", fmt.Sprintf("%q exists in the destination but no entry prescribes it", p)))
		}
	}
	return vs
}

type unpackDesc struct {
	Case *UnpackCase `json:"case"`
	Obs  *UnpackObs  `json:"obs"`
}

func runUnpackStream(o *Opts) {
	rng := NewRng(o.Seed)
	sink := NewSink(o.Out, "unpack", "Corr.RunUnpack",
		"cases: (initial tree of the whole chroot incl. a sibling dst-evil, a victim file and pre-existing content/links in dst) x entry sequences: hostile stream (names/targets over {a,b,l,..,.,'',sibling, absolute, doubled-slash spellings}, links before and after the entries that traverse them, 1-4 entries) and well-formed stream (1-7 entries over 15 names incl. long/PAX, non-ASCII, leading ./ and /, repeats, children before parents, global/extended PAX headers, unsupported types) x tar format x {root, uid 65534} x reader faults at sampled offsets; each run in a chrooted child whose / is the case root; non-trivial = at least two entries or a link; distinct by hash of the case",
		80)
	n := 1000 * o.Scale
	if o.Tier == "thorough" {
		n = 20000 * o.Scale
	}
	if o.Focus {
		n = 12000 * o.Scale
	}
	work, _ := os.MkdirTemp("", "verif-unpack-")
	defer os.RemoveAll(work)
	os.Chmod(work, 0o755)
	var cases []*UnpackCase
	cases = append(cases, corpusUnpack()...)
	for i := 0; i < n; i++ {
		hostile := i%2 == 0
		c := &UnpackCase{Dst: "/w/dst", Hostile: hostile, Format: rng.Pick([]string{"ustar", "pax", "gnu"}), FailAt: -1}
		c.Init = genInitTree(rng, hostile)
		c.Reuse = rng.Chance(30)
		if c.Reuse {
			c.WarmDir = filepath.Join(work, fmt.Sprintf("warm-%d", i))
		}
		if hostile {
			c.Entries = genHostileEntries(rng)
			if rng.Chance(20) {
				// allow-listed locations outside dst: absolute, relative to dst, one or two levels up;
				// mostly with a link whose text (read from dst) names the allow-listed place
				pairs := [][2]string{{"/w/victim", "../victim"}, {"../victim", "../victim"}, {"../../shared/", "../../shared/x"}, {"../../shared", "../../shared"},
					{"../shared", "../shared/x"}, {"/w/dst-evil/", "../dst-evil/x"}, {"../dst-evil", "../dst-evil"}}
				pr := pairs[rng.Intn(len(pairs))]
				c.Allow = []string{pr[0]}
				depth := rng.Pick([]string{"", "a/", "a/", "a/b/"})
				up := strings.Repeat("../", strings.Count(depth, "/"))
				if rng.Chance(40) {
					up = "" // the same text from a deeper directory: a relative allow-list entry counts from dst, not from the link
				}
				tgt := pr[1]
				if rng.Chance(35) {
					tgt = rng.Pick([]string{"../victim", "../../shared/x", "../shared/x", "../dst-evil/x", "../dst-evil"})
				}
				c.Entries = append(c.Entries, EntrySpec{Name: depth + "al", Type: "2", Link: up + tgt, Mode: 0o777, Mtime: 1000000000})
			}
			if c.Reuse && rng.Chance(30) {
				// a link into the tree the Packer value worked on before
				c.Entries = append(c.Entries, EntrySpec{Name: rng.Pick([]string{"wl", "a/wl"}), Type: "2", Link: c.WarmDir + rng.Pick([]string{"/d/f", "", "/l"}), Mode: 0o777, Mtime: 1000000000})
			}
		} else {
			c.Entries = genGoodEntries(rng)
			if rng.Chance(6) {
				// the destination cannot hold one of the files
				c.WriteLimit = 16
				c.Entries = append(c.Entries, EntrySpec{Name: rng.Pick([]string{"big", "a/big"}), Type: "0", Body: strings.Repeat("0123456789", 4), Mode: 0o644, Mtime: 1000000000})
			}
		}
		if rng.Chance(30) {
			c.Uid = 65534
			for j := range c.Entries {
				if c.Entries[j].Type == "5" {
					c.Entries[j].Mode |= 0o700 // the model does not track directory search/write permission
				}
			}
		}
		if rng.Chance(12) {
			c.FailAt = rng.Intn(200)
			c.Trunc = rng.Bool()
		}
		cases = append(cases, c)
	}
	type result struct {
		c   *UnpackCase
		obs *UnpackObs
		vs  []Violation
	}
	results := make([]result, len(cases))
	var wg sync.WaitGroup
	sem := make(chan struct{}, runtime.NumCPU())
	for i, c := range cases {
		wg.Add(1)
		sem <- struct{}{}
		go func(i int, c *UnpackCase) {
			defer wg.Done()
			defer func() { <-sem }()
			obs, vs := runUnpackCase(c, work)
			results[i] = result{c, obs, vs}
		}(i, c)
	}
	wg.Wait()
	for _, r := range results {
		db, _ := json.Marshal(r.c)
		h := sha256.Sum256(db)
		kind := "unpack/ok"
		switch {
		case r.obs.Crashed != "":
			kind = "harness-crash"
		case r.obs.Illegal:
			kind = "unpack/illegal-slug"
		case r.obs.Err != "":
			kind = "unpack/error"
		}
		if r.c.FailAt >= 0 {
			kind += "+fault"
		}
		cs := Case{Desc: unpackDesc{r.c, r.obs}, Key: hex.EncodeToString(h[:8]), Kind: kind,
			Nontrivial: len(r.c.Entries) >= 2, Viol: r.vs}
		if r.obs.Crashed == "" && r.c.FailAt < 0 && r.c.WriteLimit == 0 && !o.Focus && unpackInModel(r.c, r.obs) {
			final := snapToTree(r.obs.After)
			if len(r.c.Allow) > 0 {
				cs.Coq = fmt.Sprintf("CUnpackA %s %s %s %s %s %s %s", coqBool(r.c.Uid == 0), coqStrList(r.c.Allow), coqNode(r.c.Init), coqStr(r.c.Dst),
					coqEntries(r.obs.Decoded), unpackResultCoq(r.obs), coqNode(final))
			} else {
				cs.Coq = fmt.Sprintf("CUnpack %s %s %s %s %s %s", coqBool(r.c.Uid == 0), coqNode(r.c.Init), coqStr(r.c.Dst),
					coqEntries(r.obs.Decoded), unpackResultCoq(r.obs), coqNode(final))
			}
		}
		sink.Add(cs)
		if r.obs.Crashed != "" && len(sink.res.Notes) < 5 {
			sink.res.Notes = append(sink.res.Notes, "harness crash: "+r.obs.Crashed)
		}
	}
	notes := sink.res.Notes
	sink.Close(false, notes...)
}

func unpackResultCoq(o *UnpackObs) string {
	switch {
	case o.Panic != "":
		return "RPanic"
	case o.Illegal:
		return "RIllegal"
	case o.Err != "":
		return "RError"
	}
	return "ROk"
}

// unpackInModel: cases the Gallina model covers (ASCII names, small bodies).
func unpackInModel(c *UnpackCase, o *UnpackObs) bool {
	for _, e := range o.Decoded {
		if !isASCII(e.Name) || !isASCII(e.Link) || len(e.Body) > 64 {
			return false
		}
	}
	return true
}

// corpusUnpack: witnesses of findings (past and present); run first.
func corpusUnpack() []*UnpackCase {
	mk := func(init func(dst *TNode), es ...EntrySpec) *UnpackCase {
		rng := NewRng(7)
		t := genInitTree(rng, true)
		dst := tdir(0o755, nil)
		t.Kids["w"].Kids["dst"] = dst
		if init != nil {
			init(dst)
		}
		return &UnpackCase{Init: t, Dst: "/w/dst", Entries: es, Format: "pax", FailAt: -1, Hostile: true}
	}
	reg := func(name, body string) EntrySpec {
		return EntrySpec{Name: name, Type: "0", Mode: 0o644, Mtime: 1000000001, Body: body}
	}
	lnk := func(name, target string) EntrySpec {
		return EntrySpec{Name: name, Type: "2", Link: target, Mode: 0o777, Mtime: 1000000002}
	}
	dir := func(name string) EntrySpec {
		return EntrySpec{Name: name, Type: "5", Mode: 0o750, Mtime: 1000000003}
	}
	good := func(es ...EntrySpec) *UnpackCase {
		c := mk(nil, es...)
		c.Hostile = false
		return c
	}
	// deterministic sweep, run on every invocation whatever the seed: every known link target text at two depths,
	// alone, written through, and followed by a file of the same name; every known entry name as a file, as a
	// directory, and after a link to the destination itself
	var sweep []*UnpackCase
	for _, t := range hostileTargets {
		sweep = append(sweep,
			mk(nil, lnk("l", t)),
			mk(nil, lnk("l", t), reg("l/x", "through")),
			mk(nil, lnk("a/l", t), reg("a/l/x", "through")),
			mk(nil, lnk("l", t), reg("l", "over")),
			mk(nil, lnk("l2", "."), lnk("l", t), reg("l/x", "through")))
	}
	for _, n := range hostileNames {
		if n == "" {
			continue
		}
		sweep = append(sweep, mk(nil, reg(strings.TrimSuffix(n, "/")+"", "body")), mk(nil, lnk("l", "."), lnk("l2", "l/.."), reg(strings.TrimSuffix(n, "/"), "body")))
		if !strings.HasSuffix(n, "/") {
			n += "/"
		}
		sweep = append(sweep, mk(nil, dir(n)))
	}
	// the same path twice, the earlier file read-only and longer, without privileges: the later entry replaces it whole
	for _, m := range []int64{0o444, 0o400, 0o000} {
		for _, n2 := range []string{"ro", "./ro", "/ro"} {
			c := good(EntrySpec{Name: "ro", Type: "0", Mode: m, Mtime: 1000000001, Body: "the earlier, longer content"}, reg(n2, "short"))
			c.Uid = 65534
			sweep = append(sweep, c)
		}
	}
	return append(sweep, []*UnpackCase{
		mk(nil, reg("../dst-evil/x", "pwned")),                                 // D1: sibling prefix
		mk(nil, lnk("l", "../dst-evil"), reg("l/x", "through")),                // D1 on link target
		mk(nil, lnk("l", "."), reg("nx/../l/../../victim", "x")),               // D2 flavour
		mk(nil, lnk("a", "."), lnk("b", "a/../victim"), reg("b", "clobbered")), // D3: file entry on an accepted link
		mk(nil, lnk("a", "."), lnk("b", "a/..")),                               // D5: lexically fine, physically outside
		mk(nil, lnk("b", "a/.."), lnk("a", ".")),                               // D5, other order
		good(dir("empty/")),                                                    // D4: empty directory
		good(dir("d/"), reg("d/f", "x"), dir("e/")),                            //
		good(lnk("k", "c.txt"), reg("k", "via-link")),                          // D3 benign form: file entry after a link of the same name
		good(reg("cur", "v1"), lnk("cur", "v2.txt")),                           // a link entry for a path that holds a file: refused, never skipped
		good(lnk("cur", "v1.txt"), lnk("cur", "v2.txt")),                       // ... or another link
		good(reg("old", "x"), EntrySpec{Name: "epoch", Type: "0", Mode: 0o644, Mtime: 0, Body: "e"}, EntrySpec{Name: "ed/", Type: "5", Mode: 0o755, Mtime: 0}),
	}...)
}
