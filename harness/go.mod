module verifharness

go 1.20

require (
	github.com/apparentlymart/go-versions v1.0.1
	github.com/hashicorp/go-slug v0.0.0
	github.com/hashicorp/terraform-registry-address v0.2.0
)

require (
	github.com/hashicorp/terraform-svchost v0.0.1 // indirect
	golang.org/x/mod v0.10.0 // indirect
	golang.org/x/net v0.17.0 // indirect
	golang.org/x/text v0.13.0 // indirect
)

replace github.com/hashicorp/go-slug => /repo
