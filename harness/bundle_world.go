package main

// Scripted worlds for sourcebundle.Builder: what the fetcher, the registry
// client and the dependency finders return, plus the machinery to run the real
// builder against such a world and observe everything it does.

import (
	"context"
	"encoding/json"
	"fmt"
	"io/fs"
	"net/url"
	"os"
	"path/filepath"
	"sort"
	"strings"
	"sync"
	"time"

	"github.com/apparentlymart/go-versions/versions"
	regaddr "github.com/hashicorp/terraform-registry-address"

	"github.com/hashicorp/go-slug/sourceaddrs"
	"github.com/hashicorp/go-slug/sourcebundle"
)

type DepSpec struct {
	Kind   string `json:"kind"` // remote | registry | local
	Addr   string `json:"addr,omitempty"`
	Rel    string `json:"rel,omitempty"`
	Set    int    `json:"set,omitempty"`
	Finder int    `json:"finder"`
}
type DiagSpec struct {
	Sev     string `json:"sev"` // E | W
	Summary string `json:"summary"`
	File    string `json:"file,omitempty"`
}
type ModuleSpec struct {
	Deps  map[int][]DepSpec  `json:"deps,omitempty"`
	Diags map[int][]DiagSpec `json:"diags,omitempty"`
}
type ContentSpec struct {
	Modules map[string]*ModuleSpec `json:"modules"` // sub-path ("" = root) -> module
	Extra   map[string]string      `json:"extra,omitempty"`
	Ignore  string                 `json:"ignore,omitempty"` // .terraformignore content
	Links   map[string]string      `json:"links,omitempty"`  // path -> target
	Fifos   []string               `json:"fifos,omitempty"`
	Modes   map[string]uint32      `json:"modes,omitempty"` // path -> permission bits
}
type PkgSpec struct {
	Addr     string     `json:"addr"`
	Content  int        `json:"content"`
	Meta     *[2]string `json:"meta,omitempty"`
	FetchErr bool       `json:"fetch_err,omitempty"`
}
type RegVer struct {
	V         string     `json:"v"`
	Depr      *[2]string `json:"depr,omitempty"`
	Source    string     `json:"source"`
	SourceErr bool       `json:"source_err,omitempty"`
}
type RpkgSpec struct {
	Addr        string   `json:"addr"`
	Versions    []RegVer `json:"versions"`
	VersionsErr bool     `json:"versions_err,omitempty"`
}
type World struct {
	Contents []ContentSpec `json:"contents"`
	Pkgs     []PkgSpec     `json:"pkgs"`
	Rpkgs    []RpkgSpec    `json:"rpkgs"`
	Sets     []string      `json:"sets"` // "" = all; "=v" exact; else ruby-style constraint string
	NFinders int           `json:"nfinders"`
}
type OpSpec struct {
	Kind   string `json:"kind"` // remote | registry | final | close
	Addr   string `json:"addr,omitempty"`
	Set    int    `json:"set,omitempty"`
	Finder int    `json:"finder,omitempty"`
}

// ---- fault injection ----
type Fault struct {
	Kind string `json:"kind"` // fetch | versions | source | finder
	Nth  int    `json:"nth"`  // fail the nth call of that kind (0-based)
}

// ---- call and trace logs ----
type CallRec struct {
	Kind    string `json:"k"` // fetch | versions | source | analyze
	A       string `json:"a"`
	B       string `json:"b,omitempty"`
	F       int    `json:"f,omitempty"`
	Faulted bool   `json:"faulted,omitempty"`
}
type EvRec struct {
	Kind string `json:"k"`
	A    string `json:"a"`
	B    string `json:"b,omitempty"`
	N    int    `json:"n,omitempty"`
}

type runner struct {
	away       bool // the target directory is renamed away (tmpdir fault)
	tracerMode int  // 0: full tracer, 1: tracer without the Diagnostics callback, 2: no tracer
	// the remote source values handed to the builder (by Add calls and by dependency finders), as they were made
	given    []sourceaddrs.RemoteSource
	w        *World
	mu       sync.Mutex
	calls    []CallRec
	events   []EvRec
	finders  []*scriptedFinder
	sets     []versions.Set
	faults   []Fault
	counts   map[string]int
	faultHit int
	target   string
	boundary func(where string) // called at every callback boundary
	yield    bool
	diagSeen []sourcebundle.Diagnostics
}

func parseSet(s string) versions.Set {
	if s == "" {
		return versions.All
	}
	if strings.HasPrefix(s, "=") {
		return versions.Only(versions.MustParseVersion(s[1:]))
	}
	set, err := versions.MeetingConstraintsStringRuby(s)
	if err != nil {
		panic("harness: bad constraint " + s + ": " + err.Error())
	}
	return set
}

func newRunner(w *World, target string, faults []Fault) *runner {
	r := &runner{w: w, target: target, faults: faults, counts: map[string]int{}}
	for i := 0; i < w.NFinders; i++ {
		r.finders = append(r.finders, &scriptedFinder{id: i, r: r})
	}
	for _, s := range w.Sets {
		r.sets = append(r.sets, parseSet(s))
	}
	return r
}

func (r *runner) shouldFail(kind string) bool {
	n := r.counts[kind]
	r.counts[kind] = n + 1
	for _, f := range r.faults {
		if f.Kind == kind && f.Nth == n {
			r.faultHit++
			return true
		}
	}
	return false
}

func (r *runner) atBoundary(where string) {
	if r.boundary != nil {
		r.boundary(where)
	}
	if r.yield {
		time.Sleep(time.Duration(len(where)%3) * 50 * time.Microsecond)
	}
}

// rawRemoteParts splits one of the pool's canonical remote addresses ("[type::]scheme://host/path[//sub][?query]")
// without the library's parser.
func rawRemoteParts(addr string) (typ string, u *url.URL, sub string, ok bool) {
	rest := addr
	if i := strings.Index(rest, "::"); i >= 0 {
		typ, rest = rest[:i], rest[i+2:]
	}
	q := ""
	if i := strings.Index(rest, "?"); i >= 0 {
		rest, q = rest[:i], rest[i:]
	}
	i := strings.Index(rest, "://")
	if i < 0 {
		return "", nil, "", false
	}
	if j := strings.Index(rest[i+3:], "//"); j >= 0 {
		sub = rest[i+3+j+2:]
		rest = rest[:i+3+j]
	}
	u, err := url.Parse(rest + q)
	if err != nil {
		return "", nil, "", false
	}
	if typ == "" {
		typ = u.Scheme
	}
	return typ, u, sub, true
}

func (r *runner) pkgByAddr(sourceType string, u *url.URL) *PkgSpec {
	s := u.String()
	if u.Scheme != sourceType {
		s = sourceType + "::" + s
	}
	for i := range r.w.Pkgs {
		if r.w.Pkgs[i].Addr == s {
			return &r.w.Pkgs[i]
		}
	}
	return nil
}

// writeContent materialises a content spec into dir.
func writeContent(c *ContentSpec, dir string) error {
	for sub, m := range c.Modules {
		d := filepath.Join(dir, filepath.FromSlash(sub))
		if err := os.MkdirAll(d, 0o755); err != nil {
			return err
		}
		b, _ := json.Marshal(m)
		if err := os.WriteFile(filepath.Join(d, "deps.json"), b, 0o644); err != nil {
			return err
		}
	}
	for p, body := range c.Extra {
		f := filepath.Join(dir, filepath.FromSlash(p))
		os.MkdirAll(filepath.Dir(f), 0o755)
		if strings.HasSuffix(p, "/") {
			os.MkdirAll(f, 0o755)
			continue
		}
		if err := os.WriteFile(f, []byte(body), 0o644); err != nil {
			return err
		}
	}
	if c.Ignore != "" {
		if err := os.WriteFile(filepath.Join(dir, ".terraformignore"), []byte(c.Ignore), 0o644); err != nil {
			return err
		}
	}
	for p, t := range c.Links {
		f := filepath.Join(dir, filepath.FromSlash(p))
		os.MkdirAll(filepath.Dir(f), 0o755)
		if err := os.Symlink(t, f); err != nil {
			return err
		}
	}
	for _, p := range c.Fifos {
		f := filepath.Join(dir, filepath.FromSlash(p))
		os.MkdirAll(filepath.Dir(f), 0o755)
		if err := mkfifo(f); err != nil {
			return err
		}
	}
	for p, m := range c.Modes {
		if err := os.Chmod(filepath.Join(dir, filepath.FromSlash(p)), os.FileMode(m)); err != nil {
			return err
		}
	}
	return nil
}

// FetchSourcePackage implements sourcebundle.PackageFetcher
func (r *runner) FetchSourcePackage(ctx context.Context, sourceType string, u *url.URL, targetDir string) (sourcebundle.FetchSourcePackageResponse, error) {
	r.atBoundary("fetch:" + u.String())
	var ret sourcebundle.FetchSourcePackageResponse
	p := r.pkgByAddr(sourceType, u)
	addr := u.String()
	if p != nil {
		addr = p.Addr
	}
	r.calls = append(r.calls, CallRec{Kind: "fetch", A: addr})
	if p == nil {
		return ret, fmt.Errorf("no such package %s", u)
	}
	if p.FetchErr || r.shouldFail("fetch") {
		return ret, fmt.Errorf("scripted fetch failure")
	}
	if err := writeContent(&r.w.Contents[p.Content], targetDir); err != nil {
		return ret, err
	}
	if len(p.Addr)%2 == 1 {
		os.MkdirAll(filepath.Join(targetDir, ".git"), 0o755)
		os.WriteFile(filepath.Join(targetDir, ".git", "HEAD"), []byte("fetched from "+p.Addr), 0o644)
	}
	if p.Meta != nil {
		ret.PackageMeta = sourcebundle.PackageMetaWithGitMetadata(p.Meta[0], p.Meta[1])
	}
	return ret, nil
}

func (r *runner) rpkg(addr regaddr.ModulePackage) *RpkgSpec {
	for i := range r.w.Rpkgs {
		if r.w.Rpkgs[i].Addr == addr.String() {
			return &r.w.Rpkgs[i]
		}
	}
	return nil
}

func (r *runner) ModulePackageVersions(ctx context.Context, pkgAddr regaddr.ModulePackage) (sourcebundle.ModulePackageVersionsResponse, error) {
	r.atBoundary("versions:" + pkgAddr.String())
	var ret sourcebundle.ModulePackageVersionsResponse
	r.calls = append(r.calls, CallRec{Kind: "versions", A: pkgAddr.String()})
	p := r.rpkg(pkgAddr)
	if p == nil {
		return ret, fmt.Errorf("no such registry package")
	}
	if p.VersionsErr || r.shouldFail("versions") {
		return ret, fmt.Errorf("scripted registry failure")
	}
	for _, v := range p.Versions {
		info := sourcebundle.ModulePackageInfo{Version: versions.MustParseVersion(v.V)}
		if v.Depr != nil {
			info.Deprecation = &sourcebundle.ModulePackageVersionDeprecation{Reason: v.Depr[0], Link: v.Depr[1]}
		}
		ret.Versions = append(ret.Versions, info)
	}
	return ret, nil
}

func (r *runner) ModulePackageSourceAddr(ctx context.Context, pkgAddr regaddr.ModulePackage, version versions.Version) (sourcebundle.ModulePackageSourceAddrResponse, error) {
	r.atBoundary("source:" + pkgAddr.String())
	var ret sourcebundle.ModulePackageSourceAddrResponse
	r.calls = append(r.calls, CallRec{Kind: "source", A: pkgAddr.String(), B: version.String()})
	p := r.rpkg(pkgAddr)
	if p == nil {
		return ret, fmt.Errorf("no such registry package")
	}
	for _, v := range p.Versions {
		if versions.MustParseVersion(v.V) == version {
			if v.SourceErr || r.shouldFail("source") {
				return ret, fmt.Errorf("scripted registry failure")
			}
			src, err := sourceaddrs.ParseRemoteSource(v.Source)
			if err != nil {
				return ret, err
			}
			ret.SourceAddr = src
			return ret, nil
		}
	}
	return ret, fmt.Errorf("no such version")
}

type scriptedFinder struct {
	id int
	r  *runner
}

type scriptedDiag struct {
	sev  sourcebundle.DiagSeverity
	desc sourcebundle.DiagDescription
	src  sourcebundle.DiagSource
}

func (d scriptedDiag) Severity() sourcebundle.DiagSeverity       { return d.sev }
func (d scriptedDiag) Description() sourcebundle.DiagDescription { return d.desc }
func (d scriptedDiag) Source() sourcebundle.DiagSource           { return d.src }
func (d scriptedDiag) ExtraInfo() interface{}                    { return "extra" }

func (f *scriptedFinder) FindDependencies(fsys fs.FS, subPath string, deps *sourcebundle.Dependencies) sourcebundle.Diagnostics {
	r := f.r
	r.atBoundary("finder:" + subPath)
	// identify the analysed content by its module file (the finder reads what was fetched)
	p := "deps.json"
	if subPath != "" {
		p = subPath + "/deps.json"
	}
	b, err := fs.ReadFile(fsys, p)
	base := deps.VerifBaseAddr()
	if base.SubPath() != subPath {
		panic("harness: finder sub-path differs from base address")
	}
	r.calls = append(r.calls, CallRec{Kind: "analyze", A: base.Package().String(), B: subPath, F: f.id})
	if r.shouldFail("finder") {
		r.calls[len(r.calls)-1].Faulted = true
		return sourcebundle.Diagnostics{scriptedDiag{sev: sourcebundle.DiagError, desc: sourcebundle.DiagDescription{Summary: "scripted finder failure"}}}
	}
	if err != nil {
		return nil
	}
	var m ModuleSpec
	if json.Unmarshal(b, &m) != nil {
		return nil
	}
	for _, d := range m.Deps[f.id] {
		switch d.Kind {
		case "remote":
			s, err := sourceaddrs.ParseRemoteSource(d.Addr)
			if err != nil {
				panic("harness: bad remote dep " + d.Addr)
			}
			if len(d.Addr)%2 == 0 {
				// the other way to make the same address: from its parts, taken from the text by hand
				if typ, u, sub, ok := rawRemoteParts(d.Addr); ok {
					if s2, err := sourceaddrs.MakeRemoteSource(typ, u, sub); err == nil {
						s = s2
					}
				}
			}
			r.given = append(r.given, s)
			deps.AddRemoteSource(s, r.finders[d.Finder])
		case "registry":
			s, err := sourceaddrs.ParseRegistrySource(d.Addr)
			if err != nil {
				panic("harness: bad registry dep " + d.Addr)
			}
			deps.AddRegistrySource(s, r.sets[d.Set], r.finders[d.Finder])
		case "local":
			s, err := sourceaddrs.ParseLocalSource(d.Rel)
			if err != nil {
				panic("harness: bad local dep " + d.Rel)
			}
			deps.AddLocalSource(s, r.finders[d.Finder])
		}
	}
	var out sourcebundle.Diagnostics
	for _, d := range m.Diags[f.id] {
		sd := scriptedDiag{sev: sourcebundle.DiagWarning, desc: sourcebundle.DiagDescription{Summary: d.Summary, Detail: "detail of " + d.Summary}}
		if d.Sev == "E" {
			sd.sev = sourcebundle.DiagError
		}
		sd.src.Subject = &sourcebundle.SourceRange{Filename: d.File, Start: sourcebundle.SourcePos{Line: 1, Column: 2, Byte: 3}}
		sd.src.Context = &sourcebundle.SourceRange{Filename: d.File}
		out = append(out, sd)
	}
	return out
}

func (r *runner) tracer() *sourcebundle.BuildTracer {
	ev := func(k, a, b string, n int) { r.events = append(r.events, EvRec{Kind: k, A: a, B: b, N: n}) }
	return &sourcebundle.BuildTracer{
		RegistryPackageVersionsStart: func(ctx context.Context, p regaddr.ModulePackage) context.Context {
			ev("versions-start", p.String(), "", 0)
			return ctx
		},
		RegistryPackageVersionsSuccess: func(ctx context.Context, p regaddr.ModulePackage, vs versions.List) {
			ev("versions-success", p.String(), "", len(vs))
		},
		RegistryPackageVersionsFailure: func(ctx context.Context, p regaddr.ModulePackage, err error) {
			ev("versions-failure", p.String(), "", 0)
		},
		RegistryPackageVersionsAlready: func(ctx context.Context, p regaddr.ModulePackage, vs versions.List) {
			ev("versions-already", p.String(), "", len(vs))
		},
		RegistryPackageSourceStart: func(ctx context.Context, p regaddr.ModulePackage, v versions.Version) context.Context {
			ev("source-start", p.String(), v.String(), 0)
			return ctx
		},
		RegistryPackageSourceSuccess: func(ctx context.Context, p regaddr.ModulePackage, v versions.Version, s sourceaddrs.RemoteSource) {
			ev("source-success", p.String(), v.String(), 0)
		},
		RegistryPackageSourceFailure: func(ctx context.Context, p regaddr.ModulePackage, v versions.Version, err error) {
			ev("source-failure", p.String(), v.String(), 0)
		},
		RegistryPackageSourceAlready: func(ctx context.Context, p regaddr.ModulePackage, v versions.Version, s sourceaddrs.RemoteSource) {
			ev("source-already", p.String(), v.String(), 0)
		},
		RemotePackageDownloadStart: func(ctx context.Context, p sourceaddrs.RemotePackage) context.Context {
			ev("download-start", p.String(), "", 0)
			if r.shouldFail("tmpdir") {
				// the target directory is out of reach for a moment: the temporary directory cannot be made
				if os.Rename(r.target, r.target+".away") == nil {
					r.away = true
				}
			}
			return ctx
		},
		RemotePackageDownloadSuccess: func(ctx context.Context, p sourceaddrs.RemotePackage) { ev("download-success", p.String(), "", 0) },
		RemotePackageDownloadFailure: func(ctx context.Context, p sourceaddrs.RemotePackage, err error) {
			ev("download-failure", p.String(), "", 0)
			if r.away {
				os.Rename(r.target+".away", r.target)
				r.away = false
			}
		},
		RemotePackageDownloadAlready: func(ctx context.Context, p sourceaddrs.RemotePackage) { ev("download-already", p.String(), "", 0) },
		Diagnostics: func(ctx context.Context, diags sourcebundle.Diagnostics) {
			ev("diagnostics", "", "", len(diags))
			r.diagSeen = append(r.diagSeen, diags)
		},
	}
}

// tracerWithoutDiagnostics: a caller that watches downloads but not diagnostics
func (r *runner) tracerWithoutDiagnostics() *sourcebundle.BuildTracer {
	t := r.tracer()
	t.Diagnostics = nil
	return t
}

// ---- running a build ----

type DiagObs struct {
	Sev     string  `json:"sev"`
	Summary string  `json:"summary"`
	File    *string `json:"file,omitempty"`
	Ctx     *string `json:"ctx,omitempty"`
	Extra   bool    `json:"extra,omitempty"`
	Line    int     `json:"line,omitempty"`
}
type OpOutcome struct {
	Kind    string    `json:"kind"` // diags | refused | closed | close-error | timeout
	Diags   []DiagObs `json:"diags,omitempty"`
	NErrors int       `json:"nerrors,omitempty"`
	Err     string    `json:"err,omitempty"`
}
type BundleObs struct {
	Pkgs     []string             `json:"pkgs"`
	Dirs     map[string]string    `json:"dirs"`  // pkg -> dir name
	Metas    map[string][2]string `json:"metas"` // pkg -> (id, msg)
	Rpkgs    []string             `json:"rpkgs"`
	Versions map[string][]string  `json:"versions"`
	Sources  map[string]string    `json:"sources"` // "rpkg@ver" -> remote source
	Deprs    map[string][3]string `json:"deprs"`
	Checksum string               `json:"checksum"`
	Root     string               `json:"-"`
}
type BuildObs struct {
	Outcomes []OpOutcome `json:"outcomes"`
	Calls    []CallRec   `json:"calls"`
	Events   []EvRec     `json:"events"`
	Bundle   *BundleObs  `json:"bundle,omitempty"`
	Manifest string      `json:"manifest,omitempty"`
	Listing  []string    `json:"listing,omitempty"`
	Timeout  bool        `json:"timeout,omitempty"`
	FaultHit int         `json:"fault_hit,omitempty"`
}

func observeDiags(ds sourcebundle.Diagnostics) ([]DiagObs, int) {
	var out []DiagObs
	n := 0
	for _, d := range ds {
		o := DiagObs{Sev: string(rune(d.Severity())), Summary: d.Description().Summary}
		if d.Severity() == sourcebundle.DiagError {
			n++
		}
		s := d.Source()
		if s.Subject != nil {
			f := s.Subject.Filename
			o.File = &f
			o.Line = s.Subject.Start.Line
		}
		if s.Context != nil {
			f := s.Context.Filename
			o.Ctx = &f
		}
		o.Extra = d.ExtraInfo() != nil
		out = append(out, o)
	}
	return out, n
}

func observeBundle(b *sourcebundle.Bundle, root string) *BundleObs {
	o := &BundleObs{Dirs: map[string]string{}, Metas: map[string][2]string{}, Versions: map[string][]string{},
		Sources: map[string]string{}, Deprs: map[string][3]string{}, Root: root}
	for _, p := range b.RemotePackages() {
		o.Pkgs = append(o.Pkgs, p.String())
		lp, err := b.LocalPathForRemoteSource(p.SourceAddr(""))
		if err == nil {
			rel, _ := filepath.Rel(root, lp)
			o.Dirs[p.String()] = rel
		} else {
			o.Dirs[p.String()] = "ERR:" + err.Error()
		}
		if m := b.RemotePackageMeta(p); m != nil {
			o.Metas[p.String()] = [2]string{m.GitCommitID(), m.GitCommitMessage()}
		}
	}
	for _, p := range b.RegistryPackages() {
		o.Rpkgs = append(o.Rpkgs, p.String())
		for _, v := range b.RegistryPackageVersions(p) {
			o.Versions[p.String()] = append(o.Versions[p.String()], v.String())
			k := p.String() + "@" + v.String()
			if s, ok := b.RegistryPackageSourceAddr(p, v); ok {
				o.Sources[k] = s.String()
			}
			if d := b.RegistryPackageVersionDeprecation(p, v); d != nil {
				o.Deprs[k] = [3]string{d.Version, d.Reason, d.Link}
			}
		}
	}
	o.Checksum, _ = b.ChecksumV1()
	return o
}

func listDir(root string) []string {
	var out []string
	filepath.Walk(root, func(p string, info os.FileInfo, err error) error {
		if err != nil || p == root {
			return nil
		}
		rel, _ := filepath.Rel(root, p)
		t := "f"
		if info.IsDir() {
			t = "d"
		} else if info.Mode()&os.ModeSymlink != 0 {
			t = "l"
		}
		out = append(out, t+" "+rel)
		return nil
	})
	sort.Strings(out)
	return out
}

type builtBundle struct {
	traced []DiagObs
	obs    BuildObs
	bundle *sourcebundle.Bundle
	runner *runner
}

// runBuild runs ops against a fresh builder in target. The call is guarded by
// a watchdog: a build that does not return within the limit is reported as a
// timeout (the goroutine is abandoned; the caller is expected to exit soon).
func runBuild(w *World, ops []OpSpec, target string, faults []Fault, boundary func(string), limit time.Duration) *builtBundle {
	return runBuildMode(w, ops, target, faults, boundary, limit, 0)
}

// runBuildMode: tracerMode 1 = a tracer without the Diagnostics callback, 2 = no tracer
func runBuildMode(w *World, ops []OpSpec, target string, faults []Fault, boundary func(string), limit time.Duration, tracerMode int) *builtBundle {
	r := newRunner(w, target, faults)
	r.tracerMode = tracerMode
	r.boundary = boundary
	res := &builtBundle{runner: r}
	done := make(chan struct{})
	go func() {
		defer close(done)
		b, err := sourcebundle.NewBuilder(target, r, r)
		if err != nil {
			res.obs.Outcomes = append(res.obs.Outcomes, OpOutcome{Kind: "close-error", Err: err.Error()})
			return
		}
		ctx := r.tracer().OnContext(context.Background())
		switch r.tracerMode {
		case 1:
			ctx = r.tracerWithoutDiagnostics().OnContext(context.Background())
		case 2:
			ctx = context.Background() // no tracer at all
		}
		for _, op := range ops {
			out := runOp(r, b, ctx, op, res)
			res.obs.Outcomes = append(res.obs.Outcomes, out)
		}
	}()
	select {
	case <-done:
	case <-time.After(limit):
		res.obs.Timeout = true
		res.obs.Outcomes = append(res.obs.Outcomes, OpOutcome{Kind: "timeout"})
	}
	if r.away {
		os.Rename(r.target+".away", r.target)
		r.away = false
	}
	res.obs.Calls = append([]CallRec{}, r.calls...)
	res.obs.Events = append([]EvRec{}, r.events...)
	res.obs.FaultHit = r.faultHit
	for _, ds := range r.diagSeen {
		d, _ := observeDiags(ds)
		res.traced = append(res.traced, d...)
	}
	return res
}

func runOp(r *runner, b *sourcebundle.Builder, ctx context.Context, op OpSpec, res *builtBundle) (out OpOutcome) {
	defer func() {
		if p := recover(); p != nil {
			out = OpOutcome{Kind: "refused", Err: fmt.Sprint(p)}
		}
	}()
	var diags sourcebundle.Diagnostics
	switch op.Kind {
	case "remote":
		s, err := sourceaddrs.ParseRemoteSource(op.Addr)
		if err != nil {
			panic("harness: bad op addr " + op.Addr)
		}
		r.given = append(r.given, s)
		diags = b.AddRemoteSource(ctx, s, r.finders[op.Finder])
	case "registry":
		s, err := sourceaddrs.ParseRegistrySource(op.Addr)
		if err != nil {
			panic("harness: bad op addr " + op.Addr)
		}
		diags = b.AddRegistrySource(ctx, s, r.sets[op.Set], r.finders[op.Finder])
	case "final":
		s, err := sourceaddrs.ParseFinalRegistrySource(op.Addr)
		if err != nil {
			panic("harness: bad op addr " + op.Addr)
		}
		diags = b.AddFinalRegistrySource(ctx, s, r.finders[op.Finder])
	case "close":
		bundle, err := b.Close()
		if err != nil {
			return OpOutcome{Kind: "close-error", Err: err.Error()}
		}
		res.bundle = bundle
		res.obs.Bundle = observeBundle(bundle, r.target)
		mb, _ := os.ReadFile(filepath.Join(r.target, "terraform-sources.json"))
		res.obs.Manifest = string(mb)
		res.obs.Listing = listDir(r.target)
		return OpOutcome{Kind: "closed"}
	}
	d, n := observeDiags(diags)
	return OpOutcome{Kind: "diags", Diags: d, NErrors: n}
}

// ---- reference semantics of a world (independent of the builder) ----

type refItem struct {
	Pkg, Sub string
	Finder   int
}

type refResult struct {
	Items       map[refItem]bool
	Pkgs        map[string]bool
	RegSel      map[string]string // "rpkg|set" -> selected version ("" = none)
	Resolved    map[string]string // "rpkg@ver" -> remote source string
	Failed      bool              // some step of the reference build fails (missing package, no version, escape)
	ZeroSel     bool              // some request's newest allowed version is 0.0.0 or a 0.0.0 pre-release
	NoneAllowed bool              // some request has no offered version inside its allowed set
}

func cmpV(s string) string { return versions.MustParseVersion(s).Comparable().String() }

// splitRemote: package and sub-path of one of the worlds' canonical remote addresses, cut out of the text by hand
// (the reference must not depend on the parser under test)
func splitRemote(addr string) (string, string) {
	rest, q := addr, ""
	if i := strings.Index(rest, "?"); i >= 0 {
		rest, q = rest[:i], rest[i:]
	}
	i := strings.Index(rest, "://")
	if i < 0 {
		panic("harness: bad remote addr " + addr)
	}
	sub := ""
	if j := strings.Index(rest[i+3:], "//"); j >= 0 {
		sub = rest[i+3+j+2:]
		rest = rest[:i+3+j]
	}
	return rest + q, sub
}

// bruteNewest: maximum of offered ∩ allowed by a simple precedence comparison
func bruteNewest(offered []string, set versions.Set) (string, bool) {
	best := ""
	for _, o := range offered {
		v := versions.MustParseVersion(o)
		if !set.Has(v) {
			continue
		}
		if best == "" || versions.MustParseVersion(best).LessThan(v) {
			best = o
		}
	}
	return best, best != ""
}

func (w *World) pkgSpec(addr string) *PkgSpec {
	for i := range w.Pkgs {
		if w.Pkgs[i].Addr == addr {
			return &w.Pkgs[i]
		}
	}
	return nil
}
func (w *World) rpkgSpec(addr string) *RpkgSpec {
	for i := range w.Rpkgs {
		if w.Rpkgs[i].Addr == addr {
			return &w.Rpkgs[i]
		}
	}
	return nil
}

// reference closure by naive fixpoint
func (w *World) reference(ops []OpSpec) *refResult {
	res := &refResult{Items: map[refItem]bool{}, Pkgs: map[string]bool{}, RegSel: map[string]string{}, Resolved: map[string]string{}}
	var todo []refItem
	addRegistry := func(addr string, set versions.Set, setKey string, finder int) {
		s, err := sourceaddrs.ParseRegistrySource(addr)
		if err != nil {
			panic(err)
		}
		rp := w.rpkgSpec(s.Package().String())
		if rp == nil || rp.VersionsErr {
			res.Failed = true
			return
		}
		var offered []string
		for _, v := range rp.Versions {
			offered = append(offered, v.V)
		}
		best, ok := bruteNewest(offered, set)
		if !ok {
			res.RegSel[s.Package().String()+"|"+setKey] = ""
			res.Failed = true
			res.NoneAllowed = true
			return
		}
		res.RegSel[s.Package().String()+"|"+setKey] = cmpV(best)
		bv := versions.MustParseVersion(best)
		if bv.Major == 0 && bv.Minor == 0 && bv.Patch == 0 {
			res.ZeroSel = true
		}
		var chosen *RegVer
		for i := range rp.Versions {
			if versions.MustParseVersion(rp.Versions[i].V).Same(bv) {
				if rp.Versions[i].SourceErr {
					res.Failed = true
					return
				}
				if chosen == nil {
					chosen = &rp.Versions[i]
				}
			}
		}
		res.Resolved[s.Package().String()+"@"+cmpV(best)] = chosen.Source
		pkg, rsub := splitRemote(chosen.Source)
		sub := strings.Trim(rsub+"/"+s.SubPath(), "/")
		todo = append(todo, refItem{pkg, sub, finder})
	}
	for _, op := range ops {
		switch op.Kind {
		case "remote":
			p, s := splitRemote(op.Addr)
			todo = append(todo, refItem{p, s, op.Finder})
		case "registry":
			addRegistry(op.Addr, parseSet(w.Sets[op.Set]), fmt.Sprint(op.Set), op.Finder)
		case "final":
			f, err := sourceaddrs.ParseFinalRegistrySource(op.Addr)
			if err != nil {
				panic(err)
			}
			addRegistry(f.Unversioned().String(), versions.Only(f.SelectedVersion()), "="+f.SelectedVersion().String(), op.Finder)
		}
	}
	for len(todo) > 0 {
		it := todo[0]
		todo = todo[1:]
		if res.Items[it] {
			continue
		}
		res.Items[it] = true
		ps := w.pkgSpec(it.Pkg)
		if ps == nil || ps.FetchErr {
			res.Failed = true
			continue
		}
		res.Pkgs[it.Pkg] = true
		m := w.Contents[ps.Content].Modules[it.Sub]
		if m == nil {
			continue
		}
		for _, d := range m.Deps[it.Finder] {
			switch d.Kind {
			case "remote":
				p, s := splitRemote(d.Addr)
				todo = append(todo, refItem{p, s, d.Finder})
			case "registry":
				addRegistry(d.Addr, parseSet(w.Sets[d.Set]), fmt.Sprint(d.Set), d.Finder)
			case "local":
				sub, ok := refApply(it.Sub, d.Rel)
				if !ok {
					res.Failed = true
					continue
				}
				todo = append(todo, refItem{it.Pkg, sub, d.Finder})
			}
		}
		for _, dg := range m.Diags[it.Finder] {
			if dg.Sev == "E" {
				res.Failed = true
			}
		}
	}
	return res
}
