package main

import (
	"bufio"
	"encoding/json"
	"fmt"
	"os"
	"path/filepath"
	"sort"
	"strings"
)

// ---------- PRNG: SplitMix64; every random choice derives from one seed ----------

type Rng struct{ s uint64 }

func NewRng(seed uint64) *Rng { return &Rng{s: seed*0x9E3779B97F4A7C15 + 0x1234567} }
func (r *Rng) Next() uint64 {
	r.s += 0x9E3779B97F4A7C15
	z := r.s
	z = (z ^ (z >> 30)) * 0xBF58476D1CE4E5B9
	z = (z ^ (z >> 27)) * 0x94D049BB133111EB
	return z ^ (z >> 31)
}
func (r *Rng) Intn(n int) int {
	if n <= 0 {
		return 0
	}
	return int(r.Next() % uint64(n))
}
func (r *Rng) Bool() bool              { return r.Next()&1 == 1 }
func (r *Rng) Chance(p int) bool       { return r.Intn(100) < p }
func (r *Rng) Pick(xs []string) string { return xs[r.Intn(len(xs))] }
func (r *Rng) Fork() *Rng              { return &Rng{s: r.Next()} }

// ---------- Coq term printing ----------

func coqStr(s string) string {
	plain := true
	for i := 0; i < len(s); i++ {
		c := s[i]
		if c < 32 || c > 126 {
			plain = false
			break
		}
	}
	if plain {
		return `(s2l "` + strings.ReplaceAll(s, `"`, `""`) + `")`
	}
	var b strings.Builder
	b.WriteString("[")
	for i := 0; i < len(s); i++ {
		if i > 0 {
			b.WriteString(";")
		}
		fmt.Fprintf(&b, "ch %d", s[i])
	}
	b.WriteString("]")
	return b.String()
}

func coqOpt(present bool, v string) string {
	if !present {
		return "None"
	}
	return "(Some " + v + ")"
}
func coqBool(b bool) string {
	if b {
		return "true"
	}
	return "false"
}
func coqList(xs []string) string { return "[" + strings.Join(xs, "; ") + "]" }
func coqStrList(xs []string) string {
	ys := make([]string, len(xs))
	for i, x := range xs {
		ys[i] = coqStr(x)
	}
	return coqList(ys)
}

func isASCII(s string) bool {
	for i := 0; i < len(s); i++ {
		if s[i] >= 128 {
			return false
		}
	}
	return true
}

// ---------- cases, violations, results ----------

type Violation struct {
	Property   string      `json:"property"`
	What       string      `json:"what"`
	Signatures []string    `json:"signatures,omitempty"`
	Case       interface{} `json:"case"`
	Stream     string      `json:"stream"`
	Shard      int         `json:"shard"`
	Index      int         `json:"index"`
}

type Case struct {
	Coq        string      // Coq term of type `case` for the stream's Corr module; "" = oracle only
	Desc       interface{} // JSON-able description (inputs and observed outputs), used for samples and replays
	Key        string      // canonical key for distinctness
	Nontrivial bool
	Kind       string // histogram bucket
	Viol       []Violation
}

type StreamResult struct {
	Stream             string         `json:"stream"`
	CorrModule         string         `json:"corr_module"`
	Evaluations        int            `json:"evaluations"`
	ModelCases         int            `json:"model_cases"`
	DistinctNontrivial int            `json:"distinct_nontrivial"`
	Rule               string         `json:"rule"`
	Histogram          map[string]int `json:"histogram"`
	Samples            []interface{}  `json:"samples"`
	Violations         []Violation    `json:"violations"`
	Shards             int            `json:"shards"`
	Exhaustive         bool           `json:"exhaustive"`
	Notes              []string       `json:"notes,omitempty"`
}

// Sink collects cases of one stream, shards them into .v files and a .jsonl
// index, and accumulates statistics.
type Sink struct {
	dir, stream, corr string
	perShard          int
	cur               []Case
	shard             int
	res               StreamResult
	seen              map[string]struct{}
	maxSamples        int
	sampleEvery       int
	kept              map[string]int
}

func NewSink(dir, stream, corr, rule string, perShard int) *Sink {
	os.MkdirAll(dir, 0o755)
	return &Sink{dir: dir, stream: stream, corr: corr, perShard: perShard,
		res:  StreamResult{Stream: stream, CorrModule: corr, Rule: rule, Histogram: map[string]int{}},
		seen: map[string]struct{}{}, maxSamples: 6}
}

func (s *Sink) Add(c Case) {
	s.res.Evaluations++
	s.res.Histogram[c.Kind]++
	if c.Nontrivial {
		if _, ok := s.seen[c.Key]; !ok {
			s.seen[c.Key] = struct{}{}
			s.res.DistinctNontrivial++
			if len(s.res.Samples) < s.maxSamples && (s.res.DistinctNontrivial%97 == 1) {
				s.res.Samples = append(s.res.Samples, c.Desc)
			}
		}
	}
	idx := -1
	if c.Coq != "" {
		s.res.ModelCases++
		idx = len(s.cur)
	}
	for i := range c.Viol {
		c.Viol[i].Stream = s.stream
		c.Viol[i].Case = c.Desc
		c.Viol[i].Shard = s.shard
		c.Viol[i].Index = idx
		// a bound per (property, signature) so that many hits of one known finding never crowd out anything else
		k := c.Viol[i].Property + "|" + strings.Join(c.Viol[i].Signatures, ",")
		if s.kept == nil {
			s.kept = map[string]int{}
		}
		if s.kept[k] < 60 {
			s.kept[k]++
			s.res.Violations = append(s.res.Violations, c.Viol[i])
		}
	}
	if c.Coq != "" {
		s.cur = append(s.cur, c)
		if len(s.cur) >= s.perShard {
			s.flush()
		}
	}
}

func (s *Sink) flush() {
	if len(s.cur) == 0 {
		return
	}
	base := filepath.Join(s.dir, fmt.Sprintf("shard_%s_%03d", s.stream, s.shard))
	f, _ := os.Create(base + ".v")
	w := bufio.NewWriter(f)
	fmt.Fprintf(w, "From Slug Require Import %s.\n", s.corr)
	// one definition per case keeps the parser away from one huge list literal
	names := make([]string, len(s.cur))
	for i, c := range s.cur {
		names[i] = fmt.Sprintf("c%d", i)
		fmt.Fprintf(w, "Definition c%d : case := %s.\n", i, c.Coq)
	}
	fmt.Fprintf(w, "Definition cases : list case := [%s].\n", strings.Join(names, "; "))
	fmt.Fprintf(w, "Definition M := Eval vm_compute in mismatches cases.\nPrint M.\n")
	w.Flush()
	f.Close()
	jf, _ := os.Create(base + ".jsonl")
	jw := bufio.NewWriter(jf)
	enc := json.NewEncoder(jw)
	for _, c := range s.cur {
		enc.Encode(c.Desc)
	}
	jw.Flush()
	jf.Close()
	s.cur = nil
	s.shard++
}

func (s *Sink) Close(exhaustive bool, notes ...string) {
	s.flush()
	s.res.Shards = s.shard
	s.res.Exhaustive = exhaustive
	s.res.Notes = notes
	if s.res.Violations == nil {
		s.res.Violations = []Violation{}
	}
	if len(s.res.Samples) == 0 {
		s.res.Samples = []interface{}{}
	}
	b, _ := json.MarshalIndent(&s.res, "", " ")
	os.WriteFile(filepath.Join(s.dir, "result_"+s.stream+".json"), b, 0o644)
}

func sortedKeys(m map[string]int) []string {
	ks := make([]string, 0, len(m))
	for k := range m {
		ks = append(ks, k)
	}
	sort.Strings(ks)
	return ks
}
