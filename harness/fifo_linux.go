package main

import "syscall"

func mkfifo(p string) error { return syscall.Mkfifo(p, 0o644) }
