package main

// Stream "versions": the fragment of github.com/apparentlymart/go-versions the
// builder relies on (LessThan, GreaterThan, Same, List.Sort, List.NewestInSet),
// compared with its restatement in Bundle/Versions.v.

import (
	"fmt"
	"strings"

	"github.com/apparentlymart/go-versions/versions"
)

func init() { streams["versions"] = runVersions }

func runVersions(o *Opts) {
	rng := NewRng(o.Seed)
	sink := NewSink(o.Out, "versions", "Corr.RunVersions",
		"cases: pairs and lists over a version universe (numbers 0-12, pre-release parts numeric/alphanumeric/mixed lengths incl. go-versions' fewer-parts-first rule, build metadata) for LessThan/GreaterThan/Same, stable Sort and NewestInSet against random allowed sets; non-trivial = versions differ / list has >= 2 elements; distinct by printed inputs",
		500)
	pres := []string{"", "", "alpha", "alpha.1", "alpha.beta", "beta", "beta.2", "beta.11", "rc.1", "1", "2", "10", "01", "alpha.1.x", "x-y", "0"}
	metas := []string{"", "", "", "build1", "sha.abc"}
	randV := func() string {
		s := fmt.Sprintf("%d.%d.%d", rng.Intn(3), rng.Intn(3), rng.Intn(3))
		if rng.Chance(10) {
			s = fmt.Sprintf("%d.%d.%d", rng.Intn(13), rng.Intn(13), rng.Intn(13))
		}
		if p := rng.Pick(pres); p != "" {
			s += "-" + p
		}
		if m := rng.Pick(metas); m != "" {
			s += "+" + m
		}
		return s
	}
	parse := func(s string) (versions.Version, bool) {
		v, err := versions.ParseVersion(s)
		return v, err == nil
	}
	nPairs, nLists := 1500, 500
	if o.Tier == "thorough" {
		nPairs, nLists = 30000, 8000
	}
	for i := 0; i < nPairs; i++ {
		as, bs := randV(), randV()
		a, ok1 := parse(as)
		b, ok2 := parse(bs)
		if !ok1 || !ok2 {
			continue
		}
		nt := as != bs
		sink.Add(Case{Coq: fmt.Sprintf("CVlt %s %s %s", coqVersion(as), coqVersion(bs), coqBool(a.LessThan(b))), Desc: map[string]interface{}{"op": "LessThan", "a": as, "b": bs, "out": a.LessThan(b)}, Kind: "LessThan", Nontrivial: nt, Key: "lt|" + as + "|" + bs})
		sink.Add(Case{Coq: fmt.Sprintf("CVgt %s %s %s", coqVersion(as), coqVersion(bs), coqBool(a.GreaterThan(b))), Desc: map[string]interface{}{"op": "GreaterThan", "a": as, "b": bs, "out": a.GreaterThan(b)}, Kind: "GreaterThan", Nontrivial: nt, Key: "gt|" + as + "|" + bs})
		sink.Add(Case{Coq: fmt.Sprintf("CSame %s %s %s", coqVersion(as), coqVersion(bs), coqBool(a.Same(b))), Desc: map[string]interface{}{"op": "Same", "a": as, "b": bs, "out": a.Same(b)}, Kind: "Same", Nontrivial: nt, Key: "same|" + as + "|" + bs})
	}
	for i := 0; i < nLists; i++ {
		n := rng.Intn(7)
		var l versions.List
		var ls []string
		for j := 0; j < n; j++ {
			s := randV()
			if v, ok := parse(s); ok {
				l = append(l, v)
				ls = append(ls, s)
			}
		}
		if rng.Chance(30) && len(ls) > 0 {
			// metadata-only duplicate
			k := rng.Intn(len(ls))
			s := strings.SplitN(ls[k], "+", 2)[0] + "+dup"
			if v, ok := parse(s); ok {
				l = append(l, v)
				ls = append(ls, s)
			}
		}
		cl := func(xs versions.List) string {
			var out []string
			for _, v := range xs {
				out = append(out, coqVersion(v.String()))
			}
			return coqList(out)
		}
		in := cl(l)
		sorted := append(versions.List{}, l...)
		sorted.Sort()
		var ss []string
		for _, v := range sorted {
			ss = append(ss, v.String())
		}
		sink.Add(Case{Coq: fmt.Sprintf("CSort %s %s", in, cl(sorted)), Desc: map[string]interface{}{"op": "Sort", "in": ls, "out": ss}, Kind: "Sort", Nontrivial: len(l) >= 2, Key: "sort|" + strings.Join(ls, ",")})
		var allowed versions.List
		var as []string
		for _, v := range l {
			if rng.Chance(60) {
				allowed = append(allowed, v)
				as = append(as, v.String())
			}
		}
		got := sorted.NewestInSet(versions.Selection(allowed...))
		// Selection(...).Has ignores nothing: exact membership incl. metadata? validated against the model's truth-table reading
		var table versions.List
		set := versions.Selection(allowed...)
		for _, v := range l {
			if set.Has(v) {
				table = append(table, v)
			}
		}
		sink.Add(Case{Coq: fmt.Sprintf("CNewest %s %s %s", in, cl(table), coqVersion(got.String())), Desc: map[string]interface{}{"op": "NewestInSet", "in": ls, "allowed": as, "out": got.String()}, Kind: "NewestInSet", Nontrivial: len(l) >= 2, Key: "newest|" + strings.Join(ls, ",") + "|" + strings.Join(as, ",")})
	}
	sink.Close(false)
}
