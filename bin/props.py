"""Per-property and per-stream configuration of bin/check."""

TRUSTED_BASE = [
    "Coq 8.16.1 kernel incl. its vm_compute conversion (used to evaluate the model on the correspondence cases); native_compute not used",
    "axioms: none declared; every property theorem must print 'Closed under the global context'",
    "hand-written Gallina models under /verif/coq/theories (model = reading of the Go code), tied to /repo by the correspondence check: Go harness /verif/harness (generators, canonicalisation, oracles), Corr/*.v check functions, bin/check parsing of coqc output",
    "no extraction: no Extract Constant / Extract Inductive directive anywhere",
    "Go toolchain and standard library, used by the harness to run the real implementation",
]
ALLOWED_AXIOMS = []

STREAMS = {
    "resolve": {
        "name": "resolve", "corr": "Corr.RunResolve",
        "selftest": {"good": 'CClean (s2l "a/../b") (s2l "b")', "bad": 'CClean (s2l "a/../b") (s2l "a")'},
    },
}

STREAMS["bundle"] = {"name": "bundle", "corr": "Corr.RunBundle"}
STREAMS["versions"] = {
    "name": "versions", "corr": "Corr.RunVersions",
    "selftest": {"good": "CVlt (mkV 1 0 0 [] []) (mkV 1 0 1 [] []) true", "bad": "CVlt (mkV 1 0 0 [] []) (mkV 1 0 1 [] []) false"},
}

_BUILDER_ASSUME = [
    "modelled, not verified: caller callbacks (fetcher, registry client, dependency finders) as total functions of a scripted world; the prepared content of a package is an abstract identity standing for the dirhash-derived directory name (SHA-256 collision freedom is not claimed; only equality patterns are compared); sync.Mutex as atomicity of each Add call; of the manifest, the package section is modelled (Bundle/ManifestRT.v write_packages, compared with every manifest the real Close writes in the reopen stream: the model of writeManifest applied to what the model's OpenDir reads must reproduce the section, order included); the registry section is covered on the reading side for every grouping and order (C09_registry_section_read_back) but how writeManifest groups it is not modelled; encoding/json and the file are outside the model",
    "version selection uses go-versions as restated in Bundle/Versions.v (validated by the versions stream)",
]

STREAMS["ignore"] = {
    "name": "ignore", "corr": "Corr.RunIgnore",
    "selftest": {"good": 'CExcl [mkRule (s2l "**/a") false false] (s2l "x/a") (true, false)', "bad": 'CExcl [mkRule (s2l "**/a") false false] (s2l "x/ab") (true, false)'},
}

STREAMS["addr"] = {
    "name": "addr", "corr": "Corr.RunAddr",
    "selftest": {"good": 'Case ApLocal (s2l "./a") true (Some (mkObs 0 (s2l "./a") (s2l "./a") [] [] [] [] [] [] [] [] []))',
                 "bad": 'Case ApLocal (s2l "./a/") true (Some (mkObs 0 (s2l "./a/") (s2l "./a/") [] [] [] [] [] [] [] [] []))'},
}
_ADDR_ASSUME = [
    "modelled, not verified: Go's net/url (Parse, String, EscapedPath, ParseQuery, Values.Encode, escaping; Addr/Url.v, bytewise, IP-literal hosts excluded), regexp on the three patterns sourceaddrs and terraform-registry-address use, terraform-registry-address ParseModuleSource, terraform-svchost ForComparison/ForDisplay for ASCII host names (IDNA mapping of non-ASCII names and punycode are outside the model: such inputs go to the Go oracles only), go-versions ParseVersion/String, strings.TrimSpace/ToLower on ASCII; validated on every run: every Parse* entry point and MakeRemoteSource is run on grammar-derived, single-rule-violation and hostile strings and all accessors of the result are compared with the model",
]
STREAMS["manifest"] = {
    "name": "manifest", "corr": "Corr.RunManifest",
    "selftest": {"good": 'Case (s2l "/bundle") (mkManifest 1 [mkMPackage (s2l "git::https://example.com/r.git") (s2l "d") [] []] []) true true (Some (mkOpened [(s2l "git::https://example.com/r.git", s2l "/bundle/d", [], [])] [])) [QReverse (s2l "/bundle/d/x") (Some (s2l "git::https://example.com/r.git", s2l "x"))]',
                 "bad": 'Case (s2l "/bundle") (mkManifest 1 [mkMPackage (s2l "git::https://example.com/r.git") (s2l "d") [] []] []) true true (Some (mkOpened [(s2l "git::https://example.com/r.git", s2l "/bundle/d", [], [])] [])) [QReverse (s2l "/bundle/e/x") (Some (s2l "git::https://example.com/r.git", s2l "x"))]'},
}
STREAMS["reopen"] = {"name": "reopen", "corr": "Corr.RunManifest"}
STREAMS["prepare"] = {
    "name": "prepare", "corr": "Corr.RunPrepare",
    "selftest": {"good": 'CPrepare (Dir 493%N None [(s2l "b", Dir 493%N None [(s2l "w", Dir 493%N None [(s2l "f", File (s2l "x") 420%N None); (s2l "l", Link (s2l "f"))])])]) [s2l "b"; s2l "w"] [true; false; false] (Some (Dir 493%N None [(s2l "f", File (s2l "x") 420%N None); (s2l "l", Link (s2l "f"))]))',
                 "bad": 'CPrepare (Dir 493%N None [(s2l "b", Dir 493%N None [(s2l "w", Dir 493%N None [(s2l "f", File (s2l "x") 420%N None); (s2l "l", Link (s2l "/b/w/f"))])])]) [s2l "b"; s2l "w"] [true; false; false] (Some (Dir 493%N None [(s2l "f", File (s2l "x") 420%N None); (s2l "l", Link (s2l "/b/w/f"))]))'},
}
STREAMS["unpack"] = {"name": "unpack", "corr": "Corr.RunUnpack"}
_FS_ASSUME = [
    "modelled, not verified: the kernel's path resolution and lstat/stat/mkdir/open(O_CREAT|O_TRUNC)/symlink/chmod/utimensat, Go's os.MkdirAll, filepath.Join/Clean/Rel/Dir on clean absolute paths (FS/FS.v, Slug/Unpack.v); validated on every run: each case executes the real Unpack in a chrooted child whose root is the model's root, and the whole final tree is compared",
    "archive/tar + compress/gzip are exercised for real (USTAR/PAX/GNU); the model starts at the decoded entry list; reader faults are run against the implementation with the direct oracle only",
    "directory search/write permission for non-root users, atime/ctime, symlink mtimes and file bodies > 64 bytes are not modelled (not compared)",
]

STREAMS["pack"] = {"name": "pack", "corr": "Corr.RunPack"}
_PACK_ASSUME = _FS_ASSUME + [
    "modelled, not verified for Pack: filepath.Walk order (sorted names), filepath.Rel/Abs/Join, os.Open (of the walked path, or for a dereferenced link of the file whose Lstat result fills the header), archive/tar FormatUnknown mtime rounding; validated per run: every case packs in a chrooted child, the slug is decoded with archive/tar and compared entry by entry (names, order, types, perms, rounded mtimes, targets, bodies, Meta) with the model",
]

PROPS = {
    "C02": {
        "streams": ["pack", "unpack"],
        "theorems": "C02_round_trip (for every tree of regular files, directories, special files (fifos, sockets, devices: left out at every level: the only omissions) and symbolic links that stay inside - relative, non-empty, never climbing above the top of the tree when read from their own directory; dangling, chained and up-and-down links included - of any depth and width, every file system, destination, option set without ignore processing: Pack succeeds and Unpack of its output into an empty directory yields exactly the tree, link targets unchanged, times rounded to the second; by induction over the tree on both models, Slug/RoundTrip.v + Slug/RoundTripPack.v), C02_round_trip_with_ignore (with ignore processing, for every rule set that never re-includes anything below an entry it excludes - decided by evaluation, C02_closedness_is_decidable -: the round trip yields exactly the tree with the excluded entries cut out, an entry staying iff its own path is not excluded; any file system, destination, options, working directory, state of the shared flags; Slug/RoundTripIgnore.v; C02_with_ignore_instance), C02_link_check_is_root_independent (such a link passes validSymlink under every root, which is why Pack and Unpack agree), C02_rounding, C02_round_trip_instance; for all trees: C05_no_leak_without_dereference, C20_meta_describes_slug, C01_unpack_outside_unchanged",
        "assumptions": _PACK_ASSUME + ["partial: the theorems' hypotheses leave out trees whose links leave the tree and re-enter it by naming its directory, absolute links into the tree, rule sets that re-include entries below an excluded directory (the slug then holds entries whose parent directory has none, and Unpack makes those parents with default metadata) and allow-listed external links; those are decided per run by (i) correspondence of the Pack model and of the Unpack model with the implementation and (ii) packing, unpacking and comparing trees on the implementation (oracle)"],
    },
    "C05": {
        "streams": ["pack"],
        "theorems": "C05_entries_accounted_for (with or without dereferencing: every regular-file entry carries the content of a regular file that exists in the file system at or below something Lstat reaches, and whatever is stored as a link passed the containment decision against the source directory - lexically inside or allow-listed), C05_no_leak_without_dereference (all trees, options, spellings), C05_archive_position_refuted (witness of known finding KF-C05-1 for links inside dereferenced directories)",
        "assumptions": _PACK_ASSUME,
    },
    "C12": {
        "streams": ["bundle", "unpack", "pack"],
        "theorems": "C12_error_poisons, C12_bundle_only_from_close, C12_diagnostics_forwarded (builder, all worlds and histories), C12_unpack_success_is_complete; I/O faults at byte offsets are injected into the implementation only (reader: unpack stream, writer: pack stream, every fetch/versions/source/finder call: bundle stream)",
        "assumptions": _BUILDER_ASSUME + _PACK_ASSUME + ["partial: which library call surfaces a byte-offset fault is archive/tar / gzip buffering; the model's claim is that go-slug propagates every error it is handed; offsets are swept on the implementation (sampled in the quick tier)"],
    },
    "C16": {
        "streams": ["pack", "ignore"],
        "theorems": "C16_history_independent (ignore-filtered walk under either reachable flag state), C16_pack_history_independent (on the model of Pack itself: two Pack calls on the same file system, tree of regular files / directories / special files / links that stay inside, options, working directory and source path, started in any two reachable states of the shared default-rule flags - any history of earlier Pack calls and rule-file parsing - both succeed and write the same entries, file list and size; Slug/PackIgnore.v), C16_pack_history_instance, C16_flag_states, C16_spelling_independent (non-link source arguments), C16_symlinked_root_refuted (known finding KF-C16-1)",
        "assumptions": _PACK_ASSUME + ["partial on schedules: concurrent Pack calls race on the shared default-rule flags (a Go data race); the theorem covers the reachable flag states, not torn accesses", "C16_history_independent is stated on the abstract ignore walk (Ignore/Prune.v), C16_pack_history_independent on the Pack model for trees whose links stay inside (rule_ok evaluated per run); with links that leave the tree or dereferencing, Pack's walk uses the same decision procedure (Rules.excludes) and is compared with the implementation under both flag states"],
    },
    "C19": {
        "streams": ["ignore", "pack", "unpack", "resolve", "addr", "manifest", "prepare"],
        "theorems": "C19_unpack_never_panics (every entry list, file system, destination: the model's result is ok / illegal / error, its panic branch is never taken), C19_rule_file_never_panics (all rule files), C19_pack_terminates_without_dereference (fuel = height of the tree, all trees), total structurally-terminating path resolution; with dereferencing: concrete hazards terminate (Example) and every run is under a watchdog",
        "assumptions": _PACK_ASSUME + ["partial: panics and loops inside net/url, regexp, archive/tar, encoding/json are outside the model; address parsers and manifest loading are exercised by watched runs (resolve/bundle streams), termination of dereferencing Pack in general is observed (20 s watchdog), not proved"],
    },
    "C20": {
        "streams": ["pack"],
        "theorems": "C20_meta_describes_slug (every file system, option set, flag state, cwd, spelling, fuel)",
        "assumptions": _PACK_ASSUME,
    },
    "C01": {
        "streams": ["unpack"],
        "theorems": "C01_unpack_outside_unchanged (for every fs, clean absolute dst that is a real directory chain, every entry list, allow list, privilege and result class: fs' = put fs dst d), C01_fault_prefix, C01_lexical_resolution; by induction over entries with invariants over the abstract file system (1,000+ lines FS/FSProofs.v, Slug/UnpackSafe.v)",
        "assumptions": _FS_ASSUME,
    },
    "C04": {
        "streams": ["unpack"],
        "theorems": "C04_links_resolve_inside (the physical statement, for every archive whose link targets have no '..' after a name - ../../x/y, plain names, absolute targets, '.' and empty segments anywhere -: whatever the entries, their order and repetitions, under either privilege, whether Unpack succeeds or stops, every path from inside dst - in particular every link left there, through any number of other links up to the kernel's limit - resolves inside dst; the destination may hold links of the same kind beforehand; FS/Confined.v walk_confined by induction on the link budget and the remaining components, Slug/UnpackLinks.v), C04_confined_resolution (the underlying fact about path resolution, any file system), C04_refuted (with '..' after a name the physical statement is false of model and code: known finding KF-C04-1; the witness is exactly outside the theorem's hypothesis: C04_links_instance), C04_lexical (accepted targets are lexically inside dst), C04_links_never_written_through, C04_empty_destination_is_confined",
        "assumptions": _FS_ASSUME + ["C04_links_resolve_inside is stated for an empty allow list (with an allow list the oracle accepts destinations the caller allow-listed, lexically or physically); the known-finding signature of KF-C04-1 now requires a link target with '..' after a name in the archive, so an escape outside that shape is reported as a violation"],
    },
    "C15": {
        "streams": ["unpack"],
        "theorems": "C15_tree_archive_materialised (every archive listing a tree of regular files, directories and links that stay inside, unpacked into an empty directory, yields exactly that tree: contents, permissions, times, link targets; directory metadata applied after the contents), C15_directory_entry_for_existing_directory, C15_last_directory_entry_wins (a directory entry for a path that already is a directory - children first, or the same path again - changes nothing then and queues its metadata; of the queued restores of one path the last decides, contents untouched), C15_last_file_entry_wins, C15_last_of_many_file_entries (a regular-file entry whose path already holds a regular file of any content, permissions - also read-only or none - and time, under either privilege, leaves exactly its own content, permissions and time there; so of any number of entries for one file path the last one decides; Slug/LastWins.v), C15_unsupported_fails, C15_success_means_all_supported (all entry lists); for arbitrary entry orders, repeats and links the sequential-reading semantics is the executable model itself, compared with the implementation (whole final tree) and with an independent Go reference interpreter; C15_sequential_reading is a concrete instance with repeats",
        "assumptions": _FS_ASSUME + ["partial: for archives with repeated paths, children before parents, or links that leave and re-enter, 'the model's unpack equals a declarative last-writer-wins tree' is not proved as a theorem; it is checked per run by the reference interpreter on the implementation"],
    },
    "C03": {
        "streams": ["ignore", "pack"],
        "theorems": "C03_compile_correct (pattern->regexp translation = segment-wise glob specification, all well-formed patterns x all paths, any bytes), C03_line_meaning + C03_line_rule_matches + C03_unanchored_means_any_depth (what a line of a rule file means: optional '!', optional leading '/', a well-formed pattern, optional trailing '/', any surrounding white space -> one rule, negated iff '!', matching exactly the paths the segment-wise specification matches for the pattern with a '**' segment in front unless anchored and a '**' segment behind for the directory form; Ignore/LineProofs.v), C03_negations_after_exact/_over, C03_last_match_wins, C03_dominating_sound, C03_prune_eq_filter (all trees), C03_defaults; on the model of Pack itself: C03_pack_ships_exactly_the_unexcluded (for every file system holding at the source path a tree of regular files, directories, special files and links that stay inside, any depth and width, every option set, working directory and state of the shared flags, and whatever rule set parseIgnoreFile loads: Pack succeeds and writes exactly the entries of the tree whose own path is not excluded - for a directory neither 'd' nor 'd/' -, in order, also below an excluded directory; pruning and the negations-after flags play no part; Slug/PackIgnore.v), C03_loaded_rules_have_sound_flags, C03_keep_is_own_path, C03_nothing_filtered_without_ignore, C03_pack_instance",
        "assumptions": [
            "modelled, not verified: Go's regexp on the expression shapes rule.compile emits (restated as Ignore/Rules.tmatch), text/scanner, bufio.ScanLines, strings.TrimSpace (ASCII); validated by the ignore stream through the verif hooks",
            "theorem 1 covers patterns of the documented language (each ** a whole segment, no character class, no backslash); character classes [a-z], backslash escapes and non-ASCII patterns are compared by the oracle/implementation only",
            "rule_ok (a rule value ending in ** compiles to tokens ending in .*) is a hypothesis of theorems 4, 5 and 7; it is evaluated (rule_okb) on every documented-language rule file of the stream; theorem 7 covers trees without links that leave the tree and names without a newline (the rest of the Pack model, dereferencing included, is compared with the implementation per run)",
        ],
    },
    "C08": {
        "streams": ["bundle"],
        "theorems": "C08_build_is_closure (work-list soundness + completeness + cache consistency for all worlds, Add sequences and fuel, by invariants over step/drain/run_ops), C08_registry_resolution_is_cache_independent, C08_relative_inside_package, C08_closed_bundle_lookups (end to end on the models: after an error-free build, the document Close writes for the builder's package table is accepted by OpenDir and the bundle it returns looks up every added or discovered source - transitively - at <root>/<directory of the package's content>/<sub-path>; hypotheses: package strings are printed forms of address values (C06), directory names are plain names; Bundle/ClosedBundle.v), C08_metadata_retrievable (every run: the metadata table holds for each fetched package exactly what the fetcher returned with it, nothing lost or invented)",
        "assumptions": _BUILDER_ASSUME + ["path lookups of the finished bundle: C08_closed_bundle_lookups composes the builder model with the manifest and lookup models (C09, C18); on the implementation they are also checked by the oracle against a reference closure computed independently in Go"],
    },
    "C13": {
        "streams": ["bundle"],
        "theorems": "C13_order_independent (same analysed set and directory identities for any two Add sequences with the same item set), C13_coalesce_iff_equal_content, C13_manifest_packages_order_independent (the package section of the manifest is the same list whatever order the builder's map is visited in); partial on schedules: operations are atomic in the model (mutex granularity)",
        "assumptions": _BUILDER_ASSUME + ["partial: Go-memory-model data races below mutex granularity (e.g. the unlocked targetDir test at the top of each Add) cannot be exhibited by the sequential model; manifest bytes / checksum equality across all permutations is checked on the implementation"],
    },
    "C14": {
        "streams": ["bundle"],
        "theorems": "C14_analyse_once (unconditional: analysis log = analysed list, NoDup), C14_fetch_once (fetch log = package-table keys, NoDup, where fetching never fails), C14_registry_once (where the registry never fails: the log of version-list requests = keys of the version cache, the log of source-address requests = keys of the resolution table, both NoDup; Bundle/BuilderTrace.v), C14_exactly_the_reachable_set, C14_trace_start_then_outcome / C14_trace_already_after_success / C14_trace_is_bracketed (every run, failing calls included: each start event is immediately followed by its own success or failure and nothing else, each already event has the matching success before it), C14_drain_terminates + C14_measure_bound (for every world whose reachable artifacts and registry requests lie in a finite universe closed under reported dependencies - cycles, diamonds and self references included - the draining loop returns once the fuel exceeds an explicit measure bounded by the queue lengths plus a constant of the universe), C14_cycle_terminates, C14_registry_instance",
        "assumptions": _BUILDER_ASSUME + ["termination is a theorem of the model for finite universes; on the implementation every real build additionally runs under a 20 s watchdog (model fuel 4000 never exhausted on any case)"],
    },
    "C17": {
        "streams": ["versions", "bundle"],
        "theorems": "C17_selected_is_newest_allowed, C17_listing_order_irrelevant(_some), C17_exact, C17_complete + C17_error_only_if_none_allowed (a version is selected iff some offered version is allowed - 0.0.0 and its pre-releases included since the repair of KF-C17-1), C17_precedence_order (strict weak order), C17_zero_is_selected: for all version lists and allowed sets; at the level of the builder, for all worlds and histories: C17_builder_selects_like_the_world + C17_world_selection_is_newest_allowed (a registry lookup answers the registry's source address for the version select_version picks among the listed ones, whatever was cached before; none allowed = no answer = error diagnostic), C17_deprecation_is_the_registrys (every note in the bundle's deprecation table is the one the registry's listing attaches to exactly that version, build metadata included; Bundle/BuilderTrace.v)",
        "assumptions": [
            "modelled, not verified: github.com/apparentlymart/go-versions LessThan/GreaterThan/Same/Sort/NewestInSet (restated in Bundle/Versions.v, validated by the versions stream; the builder's own newestAllowedVersion is Versions.newest_allowed, validated through the bundle stream); versions.Set.Has enters as a truth table computed by the harness",
            "the builder-level selection, caching and deprecation capture are in Bundle/Builder.v (find_registry_source), compared with the real builder on scripted worlds (exact call and trace sequences, final registry tables)",
        ],
    },
    "C06": {
        "streams": ["addr", "resolve"],
        "theorems": "C06_local_round_trip, C06_local_resolve_canonical (all strings / all pairs of local values); C06_registry_round_trip, C06_registry_package_round_trip (every well-formed registry package value and every valid sub-path without '?': parse (print v) = v; well-formedness is evaluated on every registry value the parsers return in a run); C06_final_registry_round_trip (with C06_version_round_trip, C06_decimal_round_trip), C06_remote_round_trip (every remote value whose host, path and sub-path URL escaping leaves alone, via C06_parse_remote_structured and a model of net/url); C06_same_kind_local / _registry / _final_registry / _remote (the general parsers ParseSource and ParseFinalSource send a printed address back to its own kind: printed registry text never has local form; C06_registry_parser_refuses_remote_text: the registry parser refuses every text that begins with a lower-case type::scheme://, whatever follows, which also covers the text ParseFinalSource cuts off before an '@'; leading/trailing white space is refused by the general parsers only, hence a hypothesis); C06_equal_iff_same_print_registry / _final_registry / _remote (printing is injective on the values the round-trip theorems cover: two addresses are equal exactly when they print the same); refutation witnesses for the five known mechanisms (KF-C06-1..5), which are exactly the shapes outside the theorems' hypotheses",
        "assumptions": _ADDR_ASSUME + ["derived values (ResolveRelative*, Versioned, SourceAddr, FinalSourceAddr) are printed, re-parsed and compared on the implementation by the addr stream's oracle"],
    },
    "C07": {
        "streams": ["addr"],
        "theorems": "C07_git_grammar_accepted, C07_archive_by_suffix_accepted, C07_archive_by_argument_accepted, C07_shorthand_accepted (converse direction: the three documented shapes in any letter case, and the github.com / gitlab.com shorthand for every organisation, repository and sub-path of plain names); C07_parse_remote_policy, C07_make_remote_source_policy, C07_parse_remote_package_policy, C07_parse_source_policy, C07_parse_final_source_policy (every accepted string / triple on every route satisfies the independent policy predicate), C07_query_normal_form (parse_query o encode_query = stable sort, all argument lists; escaping round trip by a sweep over all 256 byte values)",
        "assumptions": _ADDR_ASSUME + ["the converse direction is proved for the three documented shapes with explicit parts (any letter case) and for the shorthand with plain names (characters URL escaping leaves alone); addresses outside those shapes (escapes in the path, unusual query arguments) are covered by the per-run grammar generator with its must-accept oracle"],
    },
    "C18": {
        "streams": ["manifest", "reopen"],
        "theorems": "C18_opened_bundle_directories, C18_bad_directory_refused (every manifest document), C18_remote_lookup_inside, C18_registry_lookup_inside (every address), C18_reverse_inverts_forward, C18_reverse_only_inside, C18_outside_not_in_bundle (every path, every set of aliases sharing a directory)",
        "assumptions": _ADDR_ASSUME + ["modelled, not verified: encoding/json decoding of the manifest (the model starts at the decoded document; raw JSON mutations are run against the implementation with the direct oracle only), os.ReadFile, filepath.Abs/Rel/Join/Clean on absolute Unix paths (Bundle/Lookup.v comps / join3, on Base/PathAlg.v), Go map iteration order (the reverse lookup's choice among equally short aliases is compared as membership in the model's candidate set); two manifest version keys that parse to the same version are not generated for the model (map-order dependent)"],
    },
    "C09": {
        "streams": ["reopen", "manifest", "pack", "unpack"],
        "theorems": "C09_what_close_writes_open_reads (Bundle/ManifestRT.v: for every directory table that is a map whose package addresses print to text that parses back to them (C06) and whose directory names are plain ASCII names, and every metadata table, the document writeManifest writes - one record per package, sorted by printed address - is accepted by OpenDir and the opened bundle knows exactly the builder's packages, directories and metadata, an entry that carries nothing coming back as none; also for the records in any other order; C09_close_open_instance), C09_registry_section_read_back + C09_written_registry_read_back (the registry section: every section whose records parse and whose bindings are exactly the entries of the builder's two registry tables - in any order, grouped by package or not - is read back as those tables: same registry packages, versions, source addresses, deprecation notes; such a section exists whenever the printed forms parse back), C09_reopen_is_a_function_of_the_manifest, C09_root_independent (accessors of open_dir do not depend on the root; forward lookups are the root followed by the same relative components; reverse lookups of corresponding paths agree), C09_reverse_choice_is_deterministic, C09_reverse_lookup_visiting_order_irrelevant (the reverse lookup walks a Go map in no fixed order: its choice is the minimum of a strict total order on printed addresses, so every visiting order gives the same answer; Bundle/BestKey.v), C09_version_visiting_order_irrelevant (the versions object of a registry entry is decoded into a Go map and visited in no fixed order: every permutation of its members gives the same map of source addresses and deprecation notes, or is refused alike); the archive leg composes C02 (pack/unpack round trip: PARTIAL there) with these",
        "assumptions": _ADDR_ASSUME + _PACK_ASSUME + ["modelled, not verified: encoding/json (MarshalIndent / Unmarshal of the manifest), crypto/sha256 (checksum compared on the implementation only), dirhash; partial: 'the same files after WriteArchive + ExtractArchive' rests on C02's round trip, which is proved piecewise and decided per run by packing, extracting and comparing the trees of real bundles; file times are compared to the archive's one-second resolution"],
    },
    "C10": {
        "streams": ["prepare", "ignore", "bundle"],
        "theorems": "C10_prepared_package_is_sane (every file system, rule set, working directory and fuel: an accepted package holds only files, directories and relative links resolving physically to regular files inside it; nothing excluded is left; only deletions happened), C10_only_excluded_removed, C10_special_file_fails, C10_link_must_resolve_inside (escaping and dangling links fail the build), C10_outside_untouched, C10_resolution_monotone_under_deletion; by an invariant over the removal/validation walk (every surviving entry was validated in a file system of which the final one is a part) and monotonicity of path resolution under deletion",
        "assumptions": _PACK_ASSUME + ["modelled, not verified: filepath.Walk (names read before the walk function sees the directory), os.RemoveAll, filepath.EvalSymlinks (as the kernel's resolution: at most 40 links, the model's bound; Go's own limit is 255), filepath.IsLocal/Rel/Join/Dir, dirhash.HashDir (every non-directory opened and read; names with a newline refused), os.Rename / coalescing with an existing directory of the same hash (the final name is not modelled: the package tree is compared, the 'no .tmp- left' and 'outside untouched' clauses are also checked on the real arena); the builder runs as root in a chroot whose root is the model's root; validated per run: the whole chroot is snapshotted at the moment of the fetch and the final package tree compared with the model's",
                        "the surrounding state machine (when packages are fetched, poisoning on error) is Bundle/Builder.v (C08/C12/C14)"],
    },
    "C11": {
        "streams": ["resolve"],
        "theorems": "C11_abs_unchanged, C11_same_kind_pkg_version, C11_resolve_is_stack_machine, C11_never_escapes, C11_local_denotation, C11_compose, C11_final_source_addr: for all bases/relative paths of any length (induction over segment lists)",
        "assumptions": [
            "modelled, not verified: Go's path.Clean, path.Join, io/fs.ValidPath (restated in Base/PathAlg.v, validated by the resolve stream's probes on every run)",
            "package addresses and versions are opaque strings in the model; inputs restricted to ASCII in the model comparison (non-ASCII go to the Go oracle only)",
        ],
    },
}

HOOK_COMMITS = ["5756dba", "2b026d6", "412ce54"]

# Properties not (yet) claimed.  Kept current as checks are added.
_NYB = "check not built yet in this development (planned, see DESIGN.md §10); not claimed until its model, theorem and correspondence exist"
NOT_APPLICABLE = {("C%02d" % i): _NYB for i in range(1, 21)}
